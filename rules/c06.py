"""C06 - a call's outcome does not depend on earlier calls (cache transparency).

Decided clauses:
 R1 cache-key classes (Tensor, ConvertibleTensor, the IR nodes, Graph) compare every field they hold, whole
 R2 leaves of the cache key keep their type (2 vs 2.0 vs True)              [known finding D6]
 R3 tracing never sees tensor data (= C13.R1: user values are only classified)
 R4 context stacks are restored on every exit (T-PAIR)
 R5 no state survives a call outside the reviewed inventory: no mutable default arguments,
    no module-level / closure memo written at call time other than the listed ones
"""

from __future__ import annotations

import ast

from sa.core import register_cache  # noqa: E402

from sa.cfg import CFG
from sa.core import AnalysisError, attr_chain, chain_root, enclosing, norm, parents, resolve_callee, src, walk_no_nested

from . import common, ir

EQ_EXEMPT = {
    ("Cast", "output"): "compared through pytree.map(_tracer_type, output) on both sides",
}


def class_fields(p, c):
    """attributes assigned on self in __init__ of c and of the project bases whose __init__ it calls"""
    fields = {}
    for k in p.mro(c):
        init = k.methods.get("__init__")
        if init is None:
            continue
        s = init.node.args.args[0].arg
        for n in walk_no_nested(init.node):
            if isinstance(n, ast.Assign):
                for t in n.targets:
                    if isinstance(t, ast.Attribute) and isinstance(t.value, ast.Name) and t.value.id == s:
                        fields.setdefault(t.attr, k)
    return fields


NARROWED_ATTRS = register_cache({})  # (class qualname, field) -> attribute names of the field that the key reads


def namespace_attrs_of_field(p, c, fld):
    """attribute names with which the namespace stored in field `fld` of class c is constructed anywhere in the package
    (`C(..., fld=types.SimpleNamespace(a=.., b=..))`, the namespace possibly bound to a local first); None if some
    construction cannot be read"""
    init = next((k.methods["__init__"] for k in p.mro(c) if hasattr(k, "methods") and "__init__" in k.methods), None)
    params = init.params[1:] if init is not None else []
    found = set()
    n = 0
    for f in p.funcs.values():
        for call in walk_no_nested(f.node):
            if not isinstance(call, ast.Call):
                continue
            r = resolve_callee(p, call, f.module)
            if not (r and r[0] == "class" and r[1] is c):
                continue
            v = common.kwarg(call, fld)
            if v is None and fld in params and params.index(fld) < len(call.args):
                v = call.args[params.index(fld)]
            if v is None:
                continue
            if isinstance(v, ast.Attribute) and isinstance(v.value, ast.Name) and v.attr == fld:
                continue  # rebuilt from an existing instance (`concrete=self.concrete`)
            if isinstance(v, ast.Name) and isinstance(f.node, (ast.FunctionDef, ast.AsyncFunctionDef)):
                v = common.single_reaching_value(common.cfg_of(f), call, v.id) or v
            if isinstance(v, ast.Call) and norm(v.func).endswith("SimpleNamespace") and not v.args and all(k.arg for k in v.keywords):
                found |= {k.arg for k in v.keywords}
                n += 1
            else:
                return None
    return found if n else None


def _method_reads(p, c, name, start=None, depth=0, seen=None):
    """(whole, narrowed): fields of self that method `name` reads as it runs for instances of c - the definition found
    through the MRO (from class `start` on), following `self.<m>()` and `super().<m>()` calls"""
    seen = seen if seen is not None else set()
    mro = [k for k in p.mro(c) if hasattr(k, "methods")]
    if start is not None and start in mro:
        mro = mro[mro.index(start) :]
    owner = next((k for k in mro if name in k.methods), None)
    if owner is None or depth > 4 or (owner.qualname, name) in seen:
        return set(), set()
    seen.add((owner.qualname, name))
    m = owner.methods[name]
    s_ = m.params[0] if m.params else "self"
    whole, narrowed = set(), set()
    for x in ast.walk(m.node):
        if isinstance(x, ast.Attribute) and isinstance(x.value, ast.Name) and x.value.id == s_ and isinstance(x.ctx, ast.Load):
            px = getattr(x, "_parent", None)
            if isinstance(px, ast.Call) and px.func is x:
                w2, n2 = _method_reads(p, c, x.attr, None, depth + 1, seen)  # self.m(...)
                whole |= w2
                narrowed |= n2
            elif isinstance(px, ast.Attribute) and px.value is x:
                narrowed.add(x.attr)
                NARROWED_ATTRS.setdefault((c.qualname, x.attr), set()).add(px.attr)
            elif isinstance(px, ast.Call) and isinstance(px.func, ast.Name) and px.func.id == "getattr" and px.args and px.args[0] is x and len(px.args) >= 2 and isinstance(px.args[1], ast.Constant):
                narrowed.add(x.attr)  # getattr(self.F, "name", default) reads one attribute of the field
                NARROWED_ATTRS.setdefault((c.qualname, x.attr), set()).add(px.args[1].value)
            else:
                whole.add(x.attr)
        if isinstance(x, ast.Call) and isinstance(x.func, ast.Attribute) and isinstance(x.func.value, ast.Call) and isinstance(x.func.value.func, ast.Name) and x.func.value.func.id == "super":
            nxt = mro[mro.index(owner) + 1] if mro.index(owner) + 1 < len(mro) else None
            if nxt is not None:
                w2, n2 = _method_reads(p, c, x.func.attr, nxt, depth + 1, seen)
                whole |= w2
                narrowed |= n2
    return whole, narrowed - whole


def eq_method(p, c):
    for k in p.mro(c):
        if hasattr(k, "methods") and "__eq__" in k.methods:
            return k.methods["__eq__"]
    return None


def eq_compared(p, c):
    eq = eq_method(p, c)
    if eq is None:
        return None
    s = eq.node.args.args[0].arg
    o = eq.node.args.args[1].arg
    whole, narrowed = set(), set()
    for n in ast.walk(eq.node):
        if isinstance(n, ast.Compare) and len(n.ops) == 1 and isinstance(n.ops[0], (ast.Eq, ast.NotEq, ast.Is, ast.IsNot)):
            l, r = n.left, n.comparators[0]
            for a, b in ((l, r), (r, l)):
                # key-based equality: `self._key() == other._key()` compares what _key() reads
                if isinstance(a, ast.Call) and isinstance(b, ast.Call) and isinstance(a.func, ast.Attribute) and isinstance(b.func, ast.Attribute) and isinstance(a.func.value, ast.Name) and isinstance(b.func.value, ast.Name) and a.func.value.id == s and b.func.value.id == o and a.func.attr == b.func.attr and not a.args and not b.args:
                    w2, n2 = _method_reads(p, c, a.func.attr)
                    whole |= w2
                    narrowed |= n2
                xs = [x for x in ast.walk(a) if isinstance(x, ast.Attribute) and isinstance(x.value, ast.Name) and x.value.id == s]
                ys = [y for y in ast.walk(b) if isinstance(y, ast.Attribute) and isinstance(y.value, ast.Name) and y.value.id == o]
                for x in xs:
                    for y in ys:
                        if x.attr == y.attr:
                            px = getattr(x, "_parent", None)
                            if isinstance(px, ast.Call) and px.func is x:
                                continue  # a method call, handled above
                            if isinstance(px, ast.Attribute) and px.value is x:
                                narrowed.add(x.attr)
                            else:
                                whole.add(x.attr)
    return whole, narrowed - whole


def r1(p, rep, only=None):
    targets = []
    for nm in ("Tensor", "ConvertibleTensor"):
        targets.append(p.cls(nm, "signature.classical.tensor"))
    if only is None:
        base, subs = ir.application_classes(p)
        targets += subs
        targets.append(p.cls("Graph", "tracer.graph"))
    # record classes that sit next to the tracers and define equality themselves (a summary object stored inside a
    # tracer, e.g. the parameters of a factory): they are part of the key through the tracer that holds them
    sigmod = targets[0].module
    for c in p.classes.values():
        if c.module is sigmod and c not in targets and "__eq__" in c.methods and "__init__" in c.methods and not p.subclasses(c, strict=True):
            targets.append(c)
    for c in targets:
        if only is not None and c.name not in only:
            continue
        fields = class_fields(p, c)
        res = eq_compared(p, c)
        if res is None:
            rep.violation("C06.R1", f"{c.qualname}:__eq__", c.loc, "class is part of the compilation cache key / graph equality but defines no __eq__")
            continue
        whole, narrowed = res
        for fld in sorted(fields):
            if fld.startswith("_"):
                continue
            key = f"{c.qualname}:eq:{fld}"
            eqm = eq_method(p, c)
            site = f"{eqm.module.rel}:{eqm.node.lineno}"
            if fld == "output" and c.name not in ("Graph",) and fields[fld].name == "Application":
                if (c.name, fld) in EQ_EXEMPT and "output" in norm(eqm.node):
                    rep.exempt("C06.R1", key, site, EQ_EXEMPT[(c.name, fld)])
                else:
                    rep.ok("C06.R1", key, site, "output tracer is determined by the node's own fields (built in Application.__init__)", nontrivial=False)
                continue
            if fld == "inputs" and fields[fld].name == "Application":
                rep.ok("C06.R1", key, site, "inputs is the list of the node's own fields (C04.R4c)", nontrivial=False)
                continue
            if fld in whole:
                rep.ok("C06.R1", key, site, f"self.{fld} == other.{fld}")
            elif fld in narrowed:
                got = NARROWED_ATTRS.get((c.qualname, fld), set())
                built = namespace_attrs_of_field(p, c, fld)
                if built is not None and built <= got:
                    rep.ok("C06.R1", key, site, f"compares the attributes {sorted(got)} of `{fld}`, which are all it is ever constructed with ({sorted(built)})")
                else:
                    miss = f" (constructed with {sorted(built)}, compared {sorted(got)}: {sorted(built - got)} is ignored)" if built is not None else ""
                    rep.violation("C06.R1", key, site, f"__eq__ compares only a part of `{fld}` (self.{fld}.<attr>){miss}: two keys that differ in the rest of `{fld}` collide in the compilation cache, so a call re-uses code compiled for a different argument kind")
            else:
                rep.violation("C06.R1", key, site, f"field `{fld}` (set in {fields[fld].name}.__init__) is not compared in {c.name}.__eq__: cache entries / graphs that differ only in `{fld}` are treated as the same")
        # __hash__ may only use fields that __eq__ uses (hash consistency)
        h = next((k.methods["__hash__"] for k in p.mro(c) if hasattr(k, "methods") and "__hash__" in k.methods), None)
        if h is not None:
            s = h.node.args.args[0].arg
            hw, hn = _method_reads(p, c, "__hash__")
            used = {a for a in (hw | hn) if a in fields}
            guard_only = {x.attr for t in ast.walk(h.node) if isinstance(t, ast.If) for x in ast.walk(t.test) if isinstance(x, ast.Attribute)}
            extra = used - whole - narrowed - guard_only
            rep.add("C06.R1", f"{c.qualname}:hash-consistent", f"{c.module.rel}:{h.node.lineno}", not extra, f"__hash__ uses {sorted(used)}" + (f"; {sorted(extra)} not compared by __eq__ (equal keys with different hashes miss the cache / unequal ones collide)" if extra else ""))


def r2(p, rep):
    rep.rule("C06.R2", "leaves of the cache key keep their type", "T-TAB (typed cache)", floor=1)
    f = p.func("lru_cache", "util.lru_cache")
    fz = p.func("_freeze_value", "util.lru_cache")
    # does _freeze_value tag leaves with their type?
    typed_leaf = any(isinstance(n, ast.Call) and isinstance(n.func, ast.Name) and n.func.id == "type" for r in ast.walk(fz.node) if isinstance(r, ast.Return) and r.value is not None for n in ast.walk(r.value))
    sites = []
    for g_ in common.with_helpers(p, f):
      for n in walk_no_nested(g_.node):
        if isinstance(n, ast.Call):
            r = p.resolve_expr(g_.module, n.func, g_.node)
            if r and r[0] == "external" and r[1] in ("functools.cache", "functools.lru_cache"):
                typed = any(k.arg == "typed" and isinstance(k.value, ast.Constant) and k.value.value is True for k in n.keywords)
                # `functools.lru_cache(maxsize=..)(func)`: the inner factory call carries the keyword; skip the outer application
                if isinstance(n.func, ast.Call):
                    continue
                sites.append((n, r[1], typed))
    if not sites:
        raise AnalysisError("anchor vanished: lru_cache() no longer applies functools.cache / functools.lru_cache")
    untyped = [(n, nm) for n, nm, typed in sites if not typed]
    ok = typed_leaf or not untyped
    rep.add(
        "C06.R2",
        f"{f.qualname}:untyped-key",
        f"{f.module.rel}:{sites[0][0].lineno}",
        ok,
        "typed cache key" if ok else f"{sorted({nm for _, nm in untyped})} used without typed=True (lines {[n.lineno for n, _ in untyped]}) and _freeze_value returns scalar leaves unchanged: 2, 2.0 and True are one cache key although validation inside the cached function distinguishes them",
    )


def r4(p, rep):
    rep.rule("C06.R4", "context stacks are restored on every exit", "T-PAIR", floor=6)
    cms_all = [c for c in p.classes.values() if "__enter__" in c.methods and "__exit__" in c.methods and not any(c.module.name == m for m in common.OFF_PATH_MODULES)]
    cms = cms_all
    if len(cms) < 3:
        raise AnalysisError(f"expected >= 3 context-manager classes (DependOn, Use, Backend), found {[c.name for c in cms]}")
    for c in cms:
        ex = c.methods["__exit__"]
        en = c.methods["__enter__"]
        exc_params = {a.arg for a in ex.node.args.args[1:]} | ({ex.node.args.vararg.arg} if ex.node.args.vararg else set())
        cfg = CFG(ex.node)
        pdom = cfg.postdominators(exits=[cfg.exit])
        undo = []
        for st in ex.node.body:
            for n in walk_no_nested(st, include_self=True):
                if isinstance(n, ast.Expr) and isinstance(n.value, ast.Call):
                    undo.append(n)
        enter_effects = [n for n in walk_no_nested(en.node) if isinstance(n, ast.Expr) and isinstance(n.value, ast.Call)]
        key = f"{c.qualname}:__exit__"
        site = f"{c.module.rel}:{ex.node.lineno}"
        if not enter_effects:
            rep.ok("C06.R4", key, site, "__enter__ has no effect to undo", nontrivial=False)
            continue
        uncond = [u for u in undo if cfg.node_for(u) is not None and cfg.node_for(u).id in pdom[cfg.entry.id]]
        cond_on_exc = [t for t in ast.walk(ex.node) if isinstance(t, (ast.If, ast.IfExp)) and any(isinstance(x, ast.Name) and x.id in exc_params for x in ast.walk(t.test))]
        ok = bool(uncond) and not cond_on_exc
        rep.add(
            "C06.R4",
            key,
            site,
            ok,
            f"undo `{norm(uncond[0].value)[:50]}` runs on every path through __exit__" if ok else "__exit__ does not undo __enter__ on every path (it depends on whether an exception is propagating): a failing call leaves an entry on the stack that alters later calls",
        )
        # enter/exit symmetric: push in enter <-> pop in exit on the same container or delegation to the same class
        def container_paths(fn, call):
            """attribute paths the receiver of `<recv>.append/pop/enter/...` may denote (aliases resolved)"""
            recv = call.func.value if isinstance(call.func, ast.Attribute) else None
            meth = call.func.attr if isinstance(call.func, ast.Attribute) else norm(call.func)
            paths = set()
            if recv is None:
                return [meth]
            if isinstance(recv, ast.Name):
                for a in walk_no_nested(fn.node):
                    if isinstance(a, ast.Assign):
                        if any(isinstance(t, ast.Name) and t.id == recv.id for t in a.targets):
                            v = a.value
                            if isinstance(v, ast.Call) and isinstance(v.func, ast.Name) and v.func.id == "getattr" and len(v.args) >= 2 and isinstance(v.args[1], ast.Constant):
                                paths.add(f"{norm(v.args[0])}.{v.args[1].value}")
                            elif isinstance(v, ast.Call):
                                r = resolve_callee(p, v, fn.module)
                                if r and r[0] == "func":
                                    for ret in walk_no_nested(r[1].node):
                                        if isinstance(ret, ast.Return) and ret.value is not None:
                                            paths.add(norm(ret.value))
                            elif isinstance(v, (ast.Attribute, ast.Name)):
                                paths.add(norm(v))
                        if isinstance(a.value, ast.Name) and a.value.id == recv.id:
                            for t in a.targets:
                                if isinstance(t, ast.Attribute):
                                    paths.add(norm(t))
            elif isinstance(recv, ast.Call):
                r = resolve_callee(p, recv, fn.module)
                if r and r[0] == "func":
                    for ret in walk_no_nested(r[1].node):
                        if isinstance(ret, ast.Return) and ret.value is not None:
                            paths.add(norm(ret.value))
            paths.add(norm(recv))
            return [f"{pth}.{meth}" for pth in paths]

        e_calls = [x for n in enter_effects for x in container_paths(en, n.value)]
        x_calls = [x for u in undo for x in container_paths(ex, u.value)]
        pair_ok = False
        why = f"enter {e_calls} / exit {x_calls}"
        for ec in e_calls:
            for xc in x_calls:
                if ec.endswith(".append") and xc.endswith(".pop") and ec[: -len(".append")] == xc[: -len(".pop")]:
                    pair_ok = True
                if ec.endswith(".enter") and xc.endswith(".exit") and ec[: -len(".enter")] == xc[: -len(".exit")]:
                    pair_ok = True
                if ec.endswith(".__enter__") and xc.endswith(".__exit__") and ec[: -len(".__enter__")] == xc[: -len(".__exit__")]:
                    pair_ok = True
                if ec.endswith("._enter") and xc.endswith("._exit") and ec[: -len("._enter")] == xc[: -len("._exit")]:
                    pair_ok = True
        rep.add("C06.R4", f"{c.qualname}:pair", site, pair_ok, why)
        # nothing may fail between the push and the return of __enter__: if __enter__ raises, the with statement
        # never calls __exit__, so an entry pushed before the failing statement stays on the stack for good
        pushes = [n for n in enter_effects if any(x.endswith((".append", ".enter", ".__enter__", "._enter")) for x in container_paths(en, n.value))]
        if pushes:
            ecfg = CFG(en.node)
            PURE = {"len", "isinstance", "id", "hasattr", "type", "list", "tuple", "dict", "set"}
            late = []
            for psh in pushes:
                pn = ecfg.node_for(psh)
                if pn is None:
                    continue
                seen, todo = set(), list(pn.succ)
                while todo:
                    q = todo.pop()
                    if q.id in seen:
                        continue
                    seen.add(q.id)
                    todo.extend(q.succ)
                    if q.ast is None or q.kind not in ("stmt", "test", "loop") or q.ast in pushes:
                        continue
                    exprs = [q.test] if q.kind == "test" and getattr(q, "test", None) is not None else [q.ast]
                    for e in exprs:
                        for x in walk_no_nested(e, include_self=True):
                            if isinstance(x, ast.Call) and not (isinstance(x.func, ast.Name) and x.func.id in PURE) and x is not psh.value:
                                # a failing statement inside a try whose handler undoes the push is fine
                                late.append(x)
            late = [x for x in late if not any(h for t in common.enclosing_tries(x, en.node) for h in t.handlers)]
            ok2 = not late
            rep.add("C06.R4", f"{c.qualname}:__enter__:nothing-fails-after-push", f"{c.module.rel}:{en.node.lineno}", ok2, "the push is the last thing __enter__ does that can fail" if ok2 else f"`{norm(late[0])[:60]}` runs after the push `{norm(pushes[0].value)[:40]}` in __enter__: if it raises, __exit__ is never called and the pushed entry stays on the stack, changing every later call")
    # manual _enter / _exit pairs are joined by try/finally
    n_manual = 0
    for f in p.funcs.values():
        for n in walk_no_nested(f.node):
            if isinstance(n, ast.Expr) and isinstance(n.value, ast.Call) and isinstance(n.value.func, ast.Attribute) and n.value.func.attr in ("_enter",) and f.name not in ("__enter__", "enter"):
                n_manual += 1
                par = getattr(n, "_parent", None)
                ok = False
                for fld in ("body", "orelse"):
                    blk = getattr(par, fld, None)
                    if isinstance(blk, list) and n in blk:
                        i = blk.index(n)
                        if i + 1 < len(blk) and isinstance(blk[i + 1], ast.Try) and blk[i + 1].finalbody:
                            fin = [norm(s.value.func) for s in blk[i + 1].finalbody if isinstance(s, ast.Expr) and isinstance(s.value, ast.Call)]
                            base = norm(n.value.func)[: -len("_enter")]
                            ok = f"{base}_exit" in fin
                rep.add("C06.R4", f"{f.qualname}:manual-enter", f"{f.module.rel}:{n.lineno}", ok, "`_enter(...)` is immediately followed by try/finally `_exit(...)`" if ok else "`_enter(...)` is not paired with `_exit(...)` in a finally block: an exception leaves the stack unbalanced")
    # every use of a context-manager class / factory is a `with` item (or the delegation idiom)
    # dedicated context managers: classes that are nothing but __init__/__enter__/__exit__
    cms = [c for c in cms_all if set(c.methods) <= {"__init__", "__enter__", "__exit__"}]
    factories = {f for f in p.funcs.values() if any(isinstance(r, ast.Return) and isinstance(r.value, ast.Call) and (lambda rr: rr and rr[0] == "class" and rr[1] in cms)(resolve_callee(p, r.value, f.module)) for r in walk_no_nested(f.node))}
    for f in p.funcs.values():
        if any(f.module.name == m for m in common.OFF_PATH_MODULES):
            continue
        for n in walk_no_nested(f.node):
            if not isinstance(n, ast.Call):
                continue
            r = resolve_callee(p, n, f.module)
            target = None
            if r and r[0] == "class" and r[1] in cms:
                target = r[1].name
            elif r and r[0] == "func" and r[1] in factories:
                target = r[1].name
            if target is None:
                continue
            par = getattr(n, "_parent", None)
            as_with = isinstance(par, ast.withitem)
            delegation = isinstance(par, ast.Attribute) and par.attr in ("__enter__", "__exit__") and f.name == par.attr
            returned = isinstance(par, ast.Return) and f in factories
            if isinstance(par, ast.Assign) and len(par.targets) == 1 and isinstance(par.targets[0], ast.Name):
                # `cm = CM(...); return cm`: a factory written in two steps
                nm_ = par.targets[0].id
                loads_ = [x for x in walk_no_nested(f.node) if isinstance(x, ast.Name) and x.id == nm_ and isinstance(x.ctx, ast.Load)]
                if loads_ and all(isinstance(getattr(x, "_parent", None), ast.Return) for x in loads_):
                    returned = True
            if isinstance(par, ast.Assign) and len(par.targets) == 1 and isinstance(par.targets[0], ast.Name):
                # `scope = CM(...)` followed by `with scope:` (the name is used for nothing else)
                nm = par.targets[0].id
                loads = [x for x in walk_no_nested(f.node) if isinstance(x, ast.Name) and x.id == nm and isinstance(x.ctx, ast.Load)]
                as_with = bool(loads) and all(isinstance(getattr(x, "_parent", None), ast.withitem) and getattr(x, "_parent").context_expr is x for x in loads)
            rep.add("C06.R4", f"{f.qualname}:use({target})", f"{f.module.rel}:{n.lineno}", as_with or delegation or returned, "with-item" if as_with else ("delegation to the same method" if delegation else ("factory return" if returned else f"{target}(...) is neither a with-item nor the enter/exit delegation idiom")))


MUTABLE_DEFAULT_OK = {}


def r5(p, rep):
    rep.rule("C06.R5", "no hidden state survives a call: no mutable default arguments; memo inventory unchanged", "inventory (who writes long-lived state)", floor=50)
    n = 0
    for f in p.funcs.values():
        a = f.node.args
        for d in list(a.defaults) + [k for k in a.kw_defaults if k is not None]:
            mutable = isinstance(d, (ast.List, ast.Dict, ast.Set, ast.ListComp, ast.DictComp, ast.SetComp)) or (isinstance(d, ast.Call) and isinstance(d.func, ast.Name) and d.func.id in ("list", "dict", "set", "defaultdict"))
            if mutable:
                rep.violation("C06.R5", f"{f.qualname}:default({norm(d)})", f.loc, f"mutable default argument {norm(d)} is created once at import and shared by every call (and every thread): anything stored in it by one call alters later calls")
        n += 1
        rep.ok("C06.R5", f"{f.qualname}:defaults", f.loc, "", nontrivial=False)
    # memo inventory: dict-typed attributes of long-lived objects written at call time
    memo_writes = []
    for f in p.funcs.values():
        if any(f.module.name == m for m in common.OFF_PATH_MODULES):
            continue
        if not (f.module.name.endswith("frontend.backend") or f.module.name.endswith("frontend.api") or f.module.name.endswith("util.lru_cache")):
            continue
        for x in walk_no_nested(f.node):
            if isinstance(x, ast.Assign):
                for t in x.targets:
                    if isinstance(t, ast.Subscript) and isinstance(t.value, ast.Attribute) and isinstance(t.value.value, ast.Name) and t.value.value.id == "self":
                        memo_writes.append((f, x, t.value.attr))
    rep.info["memo_writes"] = [f"{f.qualname}: self.{a}[...]" for f, x, a in memo_writes]
    rep.ok("C06.R5", "summary", "", f"{n} functions without mutable defaults; {len(memo_writes)} memo writes inventoried (informational)")


def r6(p, rep, parts=("reads-only", "leaves")):
    rep.rule("C06.R6", "freezing the arguments for the cache key neither modifies them nor rewrites strings / scalars (the frozen values are also what the traced function receives)", "T-EFF on the parameter + T-EXH over the converted kinds", floor=len(parts))
    f = p.func("_freeze_value", "util.lru_cache")
    x = f.params[0]
    site = f.loc
    if "reads-only" in parts:
        muts = []
        for n in ast.walk(f.node):
            if isinstance(n, (ast.Assign, ast.AugAssign, ast.Delete)):
                tg = n.targets if isinstance(n, (ast.Assign, ast.Delete)) else [n.target]
                for t in tg:
                    for y in ast.walk(t):
                        if isinstance(y, (ast.Attribute, ast.Subscript)) and common.chain_root_name(y) == x:
                            muts.append(n)
            if isinstance(n, ast.Call) and isinstance(n.func, ast.Attribute) and common.chain_root_name(n.func.value) == x and n.func.attr in ("sort", "append", "extend", "clear", "pop", "update", "setflags", "resize", "fill", "put", "itemset", "setdefault", "remove", "insert", "reverse", "add", "discard"):
                muts.append(n)
        rep.add("C06.R6", f"{f.qualname}:reads-only", site, not muts, f"`{x}` is only read" if not muts else f"`{norm(muts[0])[:70]}` modifies the caller's object while building the cache key (e.g. a numpy array passed as a size or option comes back read-only / changed)")
    if "leaves" in parts:
        ALLOWED = {"ndarray", "list", "tuple", "dict", "SimpleNamespace", "Parameter", "set", "frozenset", "generic"}
        cfg = CFG(f.node)
        bad = []
        n_arms = 0
        for r in walk_no_nested(f.node):
            if not isinstance(r, ast.Return) or r.value is None:
                continue
            classes = set()
            for t, pol in cfg.guards_of_ast(r):
                if pol and isinstance(t, ast.Call) and norm(t.func) == "isinstance" and len(t.args) == 2 and norm(t.args[0]) == x:
                    stack = [t.args[1]]
                    while stack:
                        c = stack.pop()
                        if isinstance(c, ast.BinOp) and isinstance(c.op, ast.BitOr):
                            stack += [c.left, c.right]
                        elif isinstance(c, ast.Tuple):
                            stack += list(c.elts)
                        elif isinstance(c, ast.Name) and any(isinstance(st, ast.Assign) and len(st.targets) == 1 and isinstance(st.targets[0], ast.Name) and st.targets[0].id == c.id and isinstance(st.value, (ast.Tuple, ast.BinOp)) for st in f.module.tree.body):
                            # a module-level tuple of classes (`_SEQUENCE_TYPES = (list, tuple)`)
                            stack += [st.value for st in f.module.tree.body if isinstance(st, ast.Assign) and len(st.targets) == 1 and isinstance(st.targets[0], ast.Name) and st.targets[0].id == c.id]
                        else:
                            classes.add(norm(c).split(".")[-1])
            n_arms += 1
            identity = isinstance(r.value, ast.Name) and r.value.id == x
            if classes - ALLOWED and not identity:
                bad.append((sorted(classes - ALLOWED), r))
            if not classes and not identity:
                bad.append((["<anything else>"], r))
        rep.add("C06.R6", f"{f.qualname}:leaves-unchanged", site, not bad, f"{n_arms} arms: only arrays / containers / namespaces are converted, every other value is returned as it is" if not bad else f"values of kind {bad[0][0]} are rewritten (`{norm(bad[0][1])[:60]}`): the traced function and the error messages then see a different value than the caller passed (e.g. a description with collapsed whitespace)")


def r7(p, rep):
    rep.rule("C06.R7", "__hash__ of every class uses only what its __eq__ compares (equal objects hash equally: sets / dict keys / caches work on them)", "T-SIB (__eq__ vs __hash__) over all classes of the package", floor=10)
    for c in p.classes.values():
        if any(c.module.name == m for m in common.OFF_PATH_MODULES):
            continue
        h, e = c.methods.get("__hash__"), c.methods.get("__eq__")
        if h is None or e is None or not h.node.args.args or len(e.node.args.args) < 2:
            continue
        hs, es, eo = h.node.args.args[0].arg, e.node.args.args[0].arg, e.node.args.args[1].arg
        # class-level constants (`_HASH_SEED = 8`) are not state
        consts = {t.id for k in p.mro(c) for st in k.node.body if isinstance(st, ast.Assign) for t in st.targets if isinstance(t, ast.Name)}
        used = {y.attr for y in ast.walk(h.node) if isinstance(y, ast.Attribute) and isinstance(y.value, ast.Name) and y.value.id == hs and not (isinstance(getattr(y, "_parent", None), ast.Call) and getattr(y, "_parent").func is y)} - consts
        # __eq__ with comparison helpers written out (`return _equal_inner(Cls, self, other)`)
        ecfg = CFG(e.node)
        exprs = []
        for r_ in ast.walk(e.node):
            if isinstance(r_, (ast.Return, ast.If, ast.Assign)):
                v_ = r_.value if isinstance(r_, (ast.Return, ast.Assign)) else r_.test
                if v_ is not None and ecfg.node_for(r_) is not None:
                    exprs.append(ecfg.expand(v_, ecfg.node_for(r_)))
        compared = {y.attr for x_ in exprs + [e.node] for y in ast.walk(x_) if isinstance(y, ast.Attribute) and isinstance(y.value, ast.Name) and y.value.id in (es, eo)}
        extra = used - compared
        rep.add("C06.R7", f"{c.qualname}:hash-subset-of-eq", f"{c.module.rel}:{h.node.lineno}", not extra, f"__hash__ uses {sorted(used)}, all compared by __eq__" if not extra else f"__hash__ uses {sorted(extra)}, which __eq__ ignores: two equal objects land in different hash buckets, so a set / dict of them keeps both (e.g. the set of candidate output expressions no longer collapses equal inputs and 'b... c, b... c' is rejected as ambiguous)")


def _constructs_objects(p, g, depth=0, seen=None):
    """does project function g (transitively, depth <= 3) build instances of project classes (tree nodes, tracers)?"""
    seen = seen if seen is not None else set()
    if g.qualname in seen or depth > 3:
        return False
    seen.add(g.qualname)
    for c in ast.walk(g.node):
        if not isinstance(c, ast.Call):
            continue
        r = resolve_callee(p, c, g.module)
        if r and r[0] == "class":
            return True
        if isinstance(c.func, ast.Attribute) and c.func.attr in ("create", "__deepcopy__"):
            return True
        if r and r[0] == "func" and _constructs_objects(p, r[1], depth + 1, seen):
            return True
    return False


def r8(p, rep):
    rep.rule("C06.R8", "functools caches are only put on functions whose results have no identity of their own: a memoised function that builds expression-tree / tracer objects hands ONE object to unrelated callers (the solvers key by id())", "T-EFF (who is memoised) + construction reachability", floor=1)
    owner = p.module("util.lru_cache")

    def is_memo(e, m, scope):
        r = p.resolve_expr(m, e.func if isinstance(e, ast.Call) else e, scope)
        return bool(r and r[0] == "external" and r[1] in ("functools.cache", "functools.lru_cache"))

    for m in p.modules.values():
        if any(m.name == x for x in common.OFF_PATH_MODULES):
            continue
        sites = []  # (node, memoised expression)
        for n in ast.walk(m.tree):
            if isinstance(n, (ast.FunctionDef, ast.AsyncFunctionDef)):
                for d in n.decorator_list:
                    if is_memo(d, m, None):
                        sites.append((d, n))
            elif isinstance(n, ast.Call):
                # functools.cache(f)   /   functools.lru_cache(maxsize=..)(f)
                if is_memo(n, m, None) and n.args and not n.keywords and not isinstance(getattr(n, "_parent", None), ast.Call):
                    sites.append((n, n.args[0]))
                elif isinstance(n.func, ast.Call) and is_memo(n.func, m, None) and n.args:
                    sites.append((n, n.args[0]))
        for node, target in sites:
            key = f"{m.name}:memo:{target.name if isinstance(target, ast.FunctionDef) else norm(target)[:40]}"
            site = f"{m.rel}:{node.lineno}"
            if m is owner:
                rep.ok("C06.R8", key, site, "the compilation cache itself (keyed by the frozen arguments; its value is the compiled function)")
                continue
            g = None
            if isinstance(target, ast.FunctionDef):
                g = next((f for f in p.funcs.values() if f.node is target), None)
            else:
                r = p.resolve_expr(m, target, None)
                if r and r[0] == "func":
                    g = r[1]
            if g is not None and _constructs_objects(p, g):
                rep.violation("C06.R8", key, site, f"`{g.qualname.split('::')[1]}` is memoised but builds objects (expression nodes / tracers): equal arguments now share ONE object, within a call (two constraints with the same text get the same node, so the depth solver ties them: RankError for ds=2, g=2) and across calls")
            else:
                rep.ok("C06.R8", key, site, "memoised function does not construct project objects (or cannot be resolved)", nontrivial=g is not None)


def r9(p, rep):
    rep.rule("C06.R9", "what goes into a cache key keeps the values of a dictionary, not only its keys", "lint over the key-building functions (`tuple(d)` / `sorted(d)` / `list(d)` / `set(d)` under `isinstance(d, dict)`)", floor=1)
    # the key-building functions: __eq__/__hash__/_key-style methods of the tensor placeholder classes, the functions
    # they call in their module, and the freezing helper of the cache
    roots = []
    for nm in ("Tensor", "ConvertibleTensor"):
        c = p.cls(nm, "signature.classical.tensor")
        for k in p.mro(c):
            if hasattr(k, "methods") and k.module is c.module:
                roots += [m for name, m in k.methods.items() if name in ("__eq__", "__hash__") or name.startswith("_key") or name == "_key"]
    roots.append(p.func("_freeze_value", "util.lru_cache"))
    funcs = []
    for f in roots:
        for g in common.with_helpers(p, f):
            if g not in funcs:
                funcs.append(g)
    n = 0
    for g in funcs:
        if not isinstance(g.node, (ast.FunctionDef, ast.AsyncFunctionDef)):
            continue
        cfg = common.cfg_of(g)
        for c in walk_no_nested(g.node):
            if isinstance(c, ast.Call) and isinstance(c.func, ast.Name) and c.func.id in ("tuple", "list", "sorted", "set", "frozenset") and len(c.args) == 1 and isinstance(c.args[0], ast.Name):
                x = c.args[0].id
                is_dict = any(pol and isinstance(t, ast.Call) and isinstance(t.func, ast.Name) and t.func.id == "isinstance" and len(t.args) == 2 and norm(t.args[0]) == x and norm(t.args[1]) in ("dict", "(dict,)") for t, pol in cfg.guards_of_ast(c))
                if is_dict:
                    n += 1
                    rep.violation("C06.R9", f"{g.qualname}:{norm(c)}", f"{g.module.rel}:{c.lineno}", f"`{norm(c)}` under `isinstance({x}, dict)` keeps only the keys of the dictionary: two arguments that differ in the values (e.g. the kinds of a factory's parameters) get the same cache key")
    rep.ok("C06.R9", "sweep", "einx/_src", f"{len(funcs)} key-building functions inspected, {n} key-only reductions of a dict")


def run(p, rep, tier):
    rep.rule("C06.R1", "cache-key classes compare and hash everything they hold", "T-SIB (__init__ vs __eq__ vs __hash__)", floor=30)
    r1(p, rep)
    r2(p, rep)
    from . import c13

    rep.rule("C13.R1", "user values are only classified (type / shape / signature) while compiling, never called", "T-EFF / T-TAINT (USERDATA)", floor=6)
    c13.r1(p, rep)
    r4(p, rep)
    r5(p, rep)
    r6(p, rep)
    r7(p, rep)
    r8(p, rep)
    r9(p, rep)
    from . import c11

    c11.r3(p, rep)  # a name table that is rebound when a lazily registered factory runs makes lookups depend on history
    rep.assume("functools.cache does not cache exceptions (a call that raised leaves no cache entry)")
    rep.info["undecided"] = "equality of outcomes over all call histories; only the structural clauses about keys, stacks and surviving state are decided"
