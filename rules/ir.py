"""Facts about the tracer IR: the Application subclasses, their constructor fields, the inputs they
declare, what _tracer_transform rebuilds and what __eq__ compares."""

from __future__ import annotations

import ast

from sa.core import AnalysisError, attr_chain, norm, walk_no_nested


def application_classes(p):
    base = p.cls("Application", "tracer.graph")
    subs = [c for c in p.subclasses(base) if not any(c.module.name == m for m in ("einx._src.tracer.visualize", "einx._src.tracer.compiler.run"))]
    if len(subs) < 10:
        raise AnalysisError(f"anchor vanished: expected >= 10 tracer.Application subclasses, found {[c.name for c in subs]}")
    return base, subs


def derive(fnode, expr, visited=None):
    """What is `expr` computed from inside `fnode`?  (names, {(root name, attribute)}): flow-insensitive closure over the
    local bindings - assignments (tuple targets element-wise when the value is a tuple), augmented assignments,
    append/extend/update into a local, loop and comprehension variables (their iterables), `with ... as`, and the
    bodies of nested functions / lambdas referred to by name.  An over-approximation of data dependence that does not
    care whether a value is written inline, bound to a local first or built by a small closure."""
    if visited is None:
        visited = set()
    names, attrs = set(), set()
    binds = _bindings(fnode)

    def go(e):
        for x in ast.walk(e):
            if isinstance(x, ast.Attribute) and isinstance(x.value, ast.Name):
                attrs.add((x.value.id, x.attr))
            if isinstance(x, ast.Name) and isinstance(x.ctx, ast.Load):
                names.add(x.id)
                if x.id in visited:
                    continue
                visited.add(x.id)
                for v in binds.get(x.id, []):
                    go(v)

    go(expr)
    return names, attrs


def _bindings(fnode):
    cached = getattr(fnode, "_ir_bindings", None)
    if cached is not None:
        return cached
    out = {}

    def bind(t, v):
        if isinstance(t, ast.Name):
            out.setdefault(t.id, []).append(v)
        elif isinstance(t, (ast.Tuple, ast.List)):
            if isinstance(v, (ast.Tuple, ast.List)) and len(v.elts) == len(t.elts) and not any(isinstance(e, ast.Starred) for e in list(t.elts) + list(v.elts)):
                for a, b in zip(t.elts, v.elts):
                    bind(a, b)
            else:
                for a in t.elts:
                    bind(a.value if isinstance(a, ast.Starred) else a, v)

    for n in ast.walk(fnode):
        if isinstance(n, ast.Assign):
            for t in n.targets:
                bind(t, n.value)
        elif isinstance(n, ast.AnnAssign) and n.value is not None:
            bind(n.target, n.value)
        elif isinstance(n, ast.AugAssign):
            bind(n.target, n.value)
        elif isinstance(n, (ast.For, ast.comprehension)):
            bind(n.target, n.iter)
        elif isinstance(n, ast.With):
            for it in n.items:
                if it.optional_vars is not None:
                    bind(it.optional_vars, it.context_expr)
        elif isinstance(n, ast.NamedExpr):
            bind(n.target, n.value)
        elif isinstance(n, (ast.FunctionDef, ast.AsyncFunctionDef)) and n is not fnode:
            for st in n.body:
                out.setdefault(n.name, []).append(st)
        elif isinstance(n, ast.Call) and isinstance(n.func, ast.Attribute) and n.func.attr in ("append", "extend", "update", "add", "insert", "setdefault") and isinstance(n.func.value, ast.Name):
            for a in list(n.args) + [k.value for k in n.keywords]:
                out.setdefault(n.func.value.id, []).append(a)
        elif isinstance(n, ast.Assign) and False:
            pass
    # x[k] = v  stores into the local x
    for n in ast.walk(fnode):
        if isinstance(n, ast.Assign):
            for t in n.targets:
                if isinstance(t, ast.Subscript) and isinstance(t.value, ast.Name):
                    out.setdefault(t.value.id, []).append(n.value)
    try:
        fnode._ir_bindings = out
    except Exception:
        pass
    return out


class NodeFacts:
    def __init__(self, p, c):
        self.cls = c
        init = c.methods.get("__init__")
        if init is None:
            raise AnalysisError(f"{c.qualname} has no __init__")
        self.init = init
        s = init.node.args.args[0].arg
        self.params = [a.arg for a in init.node.args.args[1:]]
        # fields: self.X = <expr>
        self.fields = {}
        for n in walk_no_nested(init.node):
            if isinstance(n, ast.Assign):
                for t in n.targets:
                    if isinstance(t, ast.Attribute) and isinstance(t.value, ast.Name) and t.value.id == s:
                        self.fields[t.attr] = n.value
        # inputs=... of super().__init__
        self.inputs_expr = None
        for n in walk_no_nested(init.node):
            if isinstance(n, ast.Call) and isinstance(n.func, ast.Attribute) and n.func.attr == "__init__":
                for k in n.keywords:
                    if k.arg == "inputs":
                        self.inputs_expr = k.value
        # names the inputs list is computed from (inline, through locals, through a validating helper call ...)
        self.input_names = derive(init.node, self.inputs_expr)[0] if self.inputs_expr is not None else set()
        # _tracer_transform
        self.transform = c.methods.get("_tracer_transform")
        self.eq = c.methods.get("__eq__")

    def field_param(self, field):
        """constructor parameter a field is derived from (self.args = list(args) -> args)"""
        v = self.fields.get(field)
        if v is None:
            return None
        names = [x.id for x in ast.walk(v) if isinstance(x, ast.Name) and x.id in self.params]
        if not names:
            # through a local: `deps = list(additional_dependencies); self.additional_dependencies = deps`
            got = derive(self.init.node, v)[0]
            names = [q for q in self.params if q in got]
        return names[0] if names else None

    def transformed_fields(self):
        """fields that _tracer_transform passes through transform(...)"""
        out = set()
        if self.transform is None:
            return out
        tparam = self.transform.node.args.args[1].arg if len(self.transform.node.args.args) > 1 else "transform"
        s = self.transform.node.args.args[0].arg
        for n in ast.walk(self.transform.node):
            if isinstance(n, ast.Call) and isinstance(n.func, ast.Name) and n.func.id == tparam:
                # transform(self.X) or transform(v) for v in self.X(.items())
                for x in ast.walk(n):
                    if isinstance(x, ast.Attribute) and isinstance(x.value, ast.Name) and x.value.id == s:
                        out.add(x.attr)
                for a in n.args:
                    out |= {attr for root, attr in derive(self.transform.node, a)[1] if root == s}
                comp = n
                par = getattr(n, "_parent", None)
                while par is not None and not isinstance(par, (ast.ListComp, ast.DictComp, ast.GeneratorExp, ast.SetComp, ast.stmt)):
                    par = getattr(par, "_parent", None)
                if isinstance(par, (ast.ListComp, ast.DictComp, ast.GeneratorExp, ast.SetComp)):
                    for g in par.generators:
                        for x in ast.walk(g.iter):
                            if isinstance(x, ast.Attribute) and isinstance(x.value, ast.Name) and x.value.id == s:
                                out.add(x.attr)
        return out

    def rebuild_call(self):
        """the constructor call returned by _tracer_transform"""
        if self.transform is None:
            return None
        for n in walk_no_nested(self.transform.node):
            if isinstance(n, ast.Return) and isinstance(n.value, ast.Call):
                return n.value
            if isinstance(n, ast.Return) and isinstance(n.value, ast.Name):
                defs = [v for v in _bindings(self.transform.node).get(n.value.id, []) if isinstance(v, ast.Call)]
                if len(defs) == 1:
                    return defs[0]
        return None

    def rebuild_sources(self, arg):
        """fields of self the rebuild argument is derived from (inline, through locals, through a nested function)"""
        s = self.transform.node.args.args[0].arg
        return {attr for root, attr in derive(self.transform.node, arg)[1] if root == s}

    def eq_fields(self):
        """fields compared as self.X <op> other.X (possibly wrapped identically on both sides)"""
        out = set()
        if self.eq is None:
            return out
        s = self.eq.node.args.args[0].arg
        o = self.eq.node.args.args[1].arg
        for n in ast.walk(self.eq.node):
            if isinstance(n, ast.Compare) and len(n.ops) == 1 and isinstance(n.ops[0], (ast.Eq, ast.NotEq, ast.Is, ast.IsNot)):
                l, r = n.left, n.comparators[0]
                for a, b in ((l, r), (r, l)):
                    la = [x for x in ast.walk(a) if isinstance(x, ast.Attribute) and isinstance(x.value, ast.Name) and x.value.id == s]
                    lb = [x for x in ast.walk(b) if isinstance(x, ast.Attribute) and isinstance(x.value, ast.Name) and x.value.id == o]
                    for x in la:
                        for y in lb:
                            if x.attr == y.attr:
                                # whole-field comparison: the attribute is not narrowed further (self.X.y == other.X.y)
                                px, py = getattr(x, "_parent", None), getattr(y, "_parent", None)
                                narrowed = isinstance(px, ast.Attribute) and px.value is x
                                if not narrowed:
                                    out.add(x.attr)
        return out
