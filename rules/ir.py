"""Facts about the tracer IR: the Application subclasses, their constructor fields, the inputs they
declare, what _tracer_transform rebuilds and what __eq__ compares."""

from __future__ import annotations

import ast

from sa.core import AnalysisError, attr_chain, norm, walk_no_nested


def application_classes(p):
    base = p.cls("Application", "tracer.graph")
    subs = [c for c in p.subclasses(base) if not any(c.module.name == m for m in ("einx._src.tracer.visualize", "einx._src.tracer.compiler.run"))]
    if len(subs) < 10:
        raise AnalysisError(f"anchor vanished: expected >= 10 tracer.Application subclasses, found {[c.name for c in subs]}")
    return base, subs


class NodeFacts:
    def __init__(self, p, c):
        self.cls = c
        init = c.methods.get("__init__")
        if init is None:
            raise AnalysisError(f"{c.qualname} has no __init__")
        self.init = init
        s = init.node.args.args[0].arg
        self.params = [a.arg for a in init.node.args.args[1:]]
        # fields: self.X = <expr>
        self.fields = {}
        for n in walk_no_nested(init.node):
            if isinstance(n, ast.Assign):
                for t in n.targets:
                    if isinstance(t, ast.Attribute) and isinstance(t.value, ast.Name) and t.value.id == s:
                        self.fields[t.attr] = n.value
        # inputs=... of super().__init__
        self.inputs_expr = None
        for n in walk_no_nested(init.node):
            if isinstance(n, ast.Call) and isinstance(n.func, ast.Attribute) and n.func.attr == "__init__":
                for k in n.keywords:
                    if k.arg == "inputs":
                        self.inputs_expr = k.value
        # `inputs = [...]` bound to a local first: use its definition(s)
        exprs = [self.inputs_expr] if self.inputs_expr is not None else []
        if isinstance(self.inputs_expr, ast.Name):
            exprs = [n.value for n in walk_no_nested(init.node) if isinstance(n, ast.Assign) and any(isinstance(t, ast.Name) and t.id == self.inputs_expr.id for t in n.targets)] or exprs
            exprs += [n.value for n in walk_no_nested(init.node) if isinstance(n, ast.AugAssign) and isinstance(n.target, ast.Name) and n.target.id == self.inputs_expr.id]
            exprs += [a for n in walk_no_nested(init.node) if isinstance(n, ast.Call) and isinstance(n.func, ast.Attribute) and n.func.attr in ("append", "extend") and norm(n.func.value) == self.inputs_expr.id for a in n.args]
        self.input_names = {x.id for e in exprs for x in ast.walk(e) if isinstance(x, ast.Name)}
        # _tracer_transform
        self.transform = c.methods.get("_tracer_transform")
        self.eq = c.methods.get("__eq__")

    def field_param(self, field):
        """constructor parameter a field is derived from (self.args = list(args) -> args)"""
        v = self.fields.get(field)
        if v is None:
            return None
        names = [x.id for x in ast.walk(v) if isinstance(x, ast.Name) and x.id in self.params]
        return names[0] if names else None

    def transformed_fields(self):
        """fields that _tracer_transform passes through transform(...)"""
        out = set()
        if self.transform is None:
            return out
        tparam = self.transform.node.args.args[1].arg if len(self.transform.node.args.args) > 1 else "transform"
        s = self.transform.node.args.args[0].arg
        for n in ast.walk(self.transform.node):
            if isinstance(n, ast.Call) and isinstance(n.func, ast.Name) and n.func.id == tparam:
                # transform(self.X) or transform(v) for v in self.X(.items())
                for x in ast.walk(n):
                    if isinstance(x, ast.Attribute) and isinstance(x.value, ast.Name) and x.value.id == s:
                        out.add(x.attr)
                comp = n
                par = getattr(n, "_parent", None)
                while par is not None and not isinstance(par, (ast.ListComp, ast.DictComp, ast.GeneratorExp, ast.SetComp, ast.stmt)):
                    par = getattr(par, "_parent", None)
                if isinstance(par, (ast.ListComp, ast.DictComp, ast.GeneratorExp, ast.SetComp)):
                    for g in par.generators:
                        for x in ast.walk(g.iter):
                            if isinstance(x, ast.Attribute) and isinstance(x.value, ast.Name) and x.value.id == s:
                                out.add(x.attr)
        return out

    def rebuild_call(self):
        """the constructor call returned by _tracer_transform"""
        if self.transform is None:
            return None
        for n in ast.walk(self.transform.node):
            if isinstance(n, ast.Return) and isinstance(n.value, ast.Call):
                return n.value
        return None

    def eq_fields(self):
        """fields compared as self.X <op> other.X (possibly wrapped identically on both sides)"""
        out = set()
        if self.eq is None:
            return out
        s = self.eq.node.args.args[0].arg
        o = self.eq.node.args.args[1].arg
        for n in ast.walk(self.eq.node):
            if isinstance(n, ast.Compare) and len(n.ops) == 1 and isinstance(n.ops[0], (ast.Eq, ast.NotEq, ast.Is, ast.IsNot)):
                l, r = n.left, n.comparators[0]
                for a, b in ((l, r), (r, l)):
                    la = [x for x in ast.walk(a) if isinstance(x, ast.Attribute) and isinstance(x.value, ast.Name) and x.value.id == s]
                    lb = [x for x in ast.walk(b) if isinstance(x, ast.Attribute) and isinstance(x.value, ast.Name) and x.value.id == o]
                    for x in la:
                        for y in lb:
                            if x.attr == y.attr:
                                # whole-field comparison: the attribute is not narrowed further (self.X.y == other.X.y)
                                px, py = getattr(x, "_parent", None), getattr(y, "_parent", None)
                                narrowed = isinstance(px, ast.Attribute) and px.value is x
                                if not narrowed:
                                    out.add(x.attr)
        return out
