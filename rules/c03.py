"""C03 - ill-formed calls are rejected with documented errors, never computed.

Decided clauses (structural, necessary conditions):
 R1 dispatch chains with an internal fall-through cover their whole domain (T-EXH)
 R2 every name load resolves to a binding (NameError is on the forbidden list)
 R3 solver failures never escape unconverted (= C02.R2)
 R4 run-time and binding failures are wrapped (T-DOM)
 R5 raise-class discipline in the validation layer
 R6 SyntaxError quotes the caller's own text
"""

from __future__ import annotations

import ast

from sa.core import AnalysisError, enclosing, norm, resolve_callee, src, undefined_names, walk_no_nested
from sa.exh import find_chains

from . import common
from .common import INTERNAL_EXC, OFF_PATH_MODULES, block_always_raises, enclosing_tries, raised_class, terminal_raises

VALIDATION_MODULES = (
    "namedtensor.stage1.parse",
    "adapter.einx_from_namedtensor",
    "namedtensor.solve",
    "frontend.api",
    "frontend.util",
    "frontend.backend",
    "namedtensor.stage2.solve",
    "namedtensor.stage3.solve",
    "namedtensor.util",
)


def r1(p, rep):
    rep.rule("C03.R1", "dispatch chains with an internal fall-through cover their domain", "T-EXH", floor=12)
    common.exhaustiveness(p, rep, "C03.R1")


def r2(p, rep, tier):
    rep.rule("C03.R2", "every name load resolves to a binding (local, enclosing, module, star-import, builtin)", "scope analysis", floor=100)
    for m in p.modules.values():
        und = undefined_names(p, m)
        seen = set()
        for name, lineno, where in und:
            k = f"{where}:name:{name}"
            if k in seen:
                continue
            seen.add(k)
            rep.violation("C03.R2", k, f"{m.rel}:{lineno}", f"name {name!r} is used but bound in no enclosing scope, module namespace, star import or builtins: NameError whenever this line runs")
        if not und:
            rep.ok("C03.R2", f"{m.name}:names", m.rel, "all name loads resolve", nontrivial=bool(m.tree.body))


def _local_from_unpack_of(p, f, call_pred):
    """Names bound in f by unpacking/assigning the result of a call satisfying call_pred."""
    out = {}
    for n in walk_no_nested(f.node):
        if isinstance(n, ast.Assign) and isinstance(n.value, ast.Call) and call_pred(n.value):
            for t in n.targets:
                names = [e.id for e in (t.elts if isinstance(t, ast.Tuple) else [t]) if isinstance(e, ast.Name)]
                for i, nm in enumerate(names):
                    out[nm] = (n, i)
    return out


def api_inners(p):
    """The `inner` wrappers of frontend/api.py that run the compiled function."""
    cached = getattr(p, "_api_inners", None)
    if cached is not None:
        return cached
    inners = [f for f in p.funcs.values() if f.module.name.endswith("frontend.api") and f.parent is not None and f.parent.name.startswith("_api_with")]
    if len(inners) < 2:
        raise AnalysisError(f"anchor vanished: expected the two api wrappers in frontend/api.py, found {[f.qualname for f in inners]}")
    # the wrappers as they run: small module-level helpers they call (`args, kwargs = _trace_arguments(...)`,
    # `return _run(function, code, tensor_args, graph=graph)`) are written out in place
    from sa.core import Func

    out = []
    for f in inners:
        node = common.inline_lexical_helpers(f.node, depth=2, resolver=common.project_resolver(p, f.module, "einx._src.frontend"))
        g = Func(qualname=f.qualname, module=f.module, node=node, cls=None, parent=f.parent)
        p.func_of_node[id(node)] = g
        out.append(g)
    p._api_inners = out
    return out


def splitter(p):
    """The callable that splits the arguments of a call into traced tensors and the rest, found by its role in the
    api wrappers (`args, kwargs, tensor_args = <splitter>(...)`): a module function, or the __call__ of an object the
    enclosing factory builds once.  -> (Func, text of the callee in the wrappers)"""
    for f in api_inners(p):
        for n in walk_no_nested(f.node):
            if isinstance(n, ast.Assign) and isinstance(n.targets[0], ast.Tuple) and len(n.targets[0].elts) == 3 and isinstance(n.value, ast.Call):
                call = n.value
                r = resolve_callee(p, call, f.module)
                if r and r[0] == "func":
                    return r[1], norm(call.func)
                if isinstance(call.func, ast.Name) and f.parent is not None:
                    for a in walk_no_nested(f.parent.node):
                        if isinstance(a, ast.Assign) and isinstance(a.value, ast.Call) and any(isinstance(t, ast.Name) and t.id == call.func.id for t in a.targets):
                            r2 = resolve_callee(p, a.value, f.module)
                            if r2 and r2[0] == "class":
                                m = p.lookup_method(r2[1], "__call__")
                                if m is not None:
                                    return m, norm(call.func)
    raise AnalysisError("anchor vanished: no `args, kwargs, tensor_args = <splitter>(...)` in the api wrappers of frontend/api.py")


def compiled_function_calls(p, f):
    """In an api wrapper: (call of the compiled function, its name, assignment that produced it, cache call)."""
    cache_names = set()
    if f.parent is not None:
        for n in walk_no_nested(f.parent.node):
            if isinstance(n, ast.Assign) and isinstance(n.value, ast.Call):
                r = resolve_callee(p, n.value, f.module)
                if r and r[0] == "func" and r[1].name == "lru_cache":
                    for t in n.targets:
                        if isinstance(t, ast.Name):
                            cache_names.add(t.id)
    if not cache_names:
        raise AnalysisError(f"unrecognised idiom: no lru_cache(...) construction in {f.parent.qualname if f.parent else f.qualname}")
    bound = _local_from_unpack_of(p, f, lambda c: isinstance(c.func, ast.Name) and c.func.id in cache_names)
    fn_names = {nm for nm, (a, i) in bound.items() if i == 0}
    code_names = {nm for nm, (a, i) in bound.items() if i == 1}
    calls = [n for n in walk_no_nested(f.node) if isinstance(n, ast.Call) and isinstance(n.func, ast.Name) and n.func.id in fn_names]
    # the compiled function may be handed to a helper of the same module that calls it
    for n in walk_no_nested(f.node):
        if isinstance(n, ast.Call) and any(isinstance(a, ast.Name) and a.id in fn_names for a in n.args):
            r = resolve_callee(p, n, f.module)
            if r and r[0] == "func" and r[1].module is f.module:
                h = r[1]
                idx = next(i for i, a in enumerate(n.args) if isinstance(a, ast.Name) and a.id in fn_names)
                hp = h.params[idx] if idx < len(h.params) else None
                inner_calls = [c for c in walk_no_nested(h.node) if isinstance(c, ast.Call) and isinstance(c.func, ast.Name) and c.func.id == hp]
                if inner_calls:
                    n._helper = (h, inner_calls, hp)
                    calls.append(n)
    if not calls or not code_names:
        raise AnalysisError(f"unrecognised idiom in {f.qualname}: compiled function / code are not obtained by unpacking the cache call")
    return calls, fn_names, code_names, bound


def exec_sites(call, f):
    """(function, call node) pairs where the compiled function is really invoked for an api-wrapper call site"""
    h = getattr(call, "_helper", None)
    if h is None:
        return [(f, call)]
    return [(h[0], c) for c in h[1]]


def callee_label(call):
    return norm(call.func)


def r4(p, rep):
    rep.rule("C03.R4", "run-time and argument-binding failures are wrapped in documented errors", "T-DOM (lexical try/except)", floor=3)
    for f in api_inners(p):
        calls, fn_names, code_names, bound = compiled_function_calls(p, f)
        for call in calls:
            site = f"{f.module.rel}:{call.lineno}"
            key = f"{f.qualname}:call({callee_label(call)})"
            ok, why = False, "the call of the compiled function is not inside a try"
            for g, c in exec_sites(call, f):
                for t in enclosing_tries(c):
                    for h in t.handlers:
                        catches_all = h.type is None or (isinstance(h.type, ast.Name) and h.type.id in ("Exception", "BaseException"))
                        if not catches_all:
                            why = f"handler `except {norm(h.type)}` does not catch every Exception"
                            continue
                        if not block_always_raises(h.body):
                            why = "the catch-all handler does not raise on every path"
                            continue
                        kinds = [raised_class(p, g.module, r, g.node) for r in terminal_raises(h.body)]
                        if all(k == ("errors", "CallOperationError") for k in kinds):
                            ok, why = True, "inside try/except Exception -> raise CallOperationError"
                        else:
                            why = f"catch-all handler raises {kinds}"
                    if ok:
                        break
            rep.add("C03.R4", key, site, ok, why)
    f, _ = splitter(p)
    binds = [(g, n) for g in common.with_helpers(p, f) for n in walk_no_nested(g.node) if isinstance(n, ast.Call) and isinstance(n.func, ast.Attribute) and n.func.attr == "bind"]
    if not binds:
        raise AnalysisError(f"unrecognised idiom: no signature.bind(...) reachable from {f.qualname}")
    for g, call in binds:
        ok, why = False, "signature.bind is not inside try/except TypeError"
        for t in enclosing_tries(call):
            for h in t.handlers:
                names = [norm(x) for x in (h.type.elts if isinstance(h.type, ast.Tuple) else [h.type])] if h.type is not None else ["*"]
                if ("TypeError" in names or "Exception" in names or "*" in names) and block_always_raises(h.body):
                    kinds = [raised_class(p, g.module, r, g.node) for r in terminal_raises(h.body)]
                    if all(k in (("builtin", "TypeError"), ("builtin", "ValueError")) or k[0] == "errors" for k in kinds):
                        ok, why = True, "inside try/except TypeError -> raise TypeError"
        rep.add("C03.R4", f"{f.qualname}:call(bind)", f"{f.module.rel}:{call.lineno}", ok, why)


def r5(p, rep):
    rep.rule("C03.R5", "every raise in the validation layer raises a documented class (einx.errors.*, ValueError, TypeError) or is a checked fall-through", "raise-class discipline", floor=60)
    base = p.cls("SolveException", "util.solver")
    solve_family = {c.qualname for c in [base] + p.subclasses(base)}
    for f in p.funcs.values():
        if not any(f.module.name.endswith(m) for m in VALIDATION_MODULES):
            continue
        fallthroughs = {id(ch.fallthrough) for ch in find_chains(p, f)}
        for n in walk_no_nested(f.node):
            if not isinstance(n, ast.Raise):
                continue
            kind, nm = raised_class(p, f.module, n, f.node)
            site = f"{f.module.rel}:{n.lineno}"
            key = f"{f.qualname}:raise:{nm or 'reraise'}:{_raise_ctx(n)}"
            if kind == "reraise" or kind == "errors":
                rep.ok("C03.R5", key, site, f"{kind} {nm or ''}")
            elif kind == "builtin" and nm in ("ValueError", "TypeError"):
                rep.ok("C03.R5", key, site, nm)
            elif kind == "project" and nm in solve_family:
                rep.ok("C03.R5", key, site, "solver-internal exception; every call site is checked by C03.R3")
            elif id(n) in fallthroughs and nm in INTERNAL_EXC:
                rep.ok("C03.R5", key, site, "dispatch fall-through; exhaustiveness checked by C03.R1", nontrivial=False)
            elif _unreachable_after_raise(n):
                rep.ok("C03.R5", key, site, "statement directly follows an unconditional raise (dead code)", nontrivial=False)
            elif nm == "AttributeError" and f.name in ("__getattr__", "__getattribute__") and _raise_ctx(n) == "top":
                rep.ok("C03.R5", key, site, "attribute protocol: __getattr__ answers an unknown name with AttributeError (what hasattr / getattr / `from .. import` expect); not a check of a call's arguments", nontrivial=False)
            elif nm == "NotImplementedError" and _abstract_hook(p, f, n):
                rep.ok("C03.R5", key, site, "abstract hook: the class is never instantiated and every concrete subclass overrides the method, so the raise cannot run", nontrivial=False)
            else:
                rep.violation("C03.R5", key, site, f"raises {nm} ({kind}), which is not a documented error class for ill-formed calls (einx.errors.*, ValueError, TypeError)")


def _abstract_hook(p, f, n):
    """the raise is the whole body of a method of a class that is never constructed, and every leaf subclass
    resolves the method to an override"""
    c = f.cls
    if c is None or not isinstance(f.node, ast.FunctionDef):
        return False
    body = [st for st in f.node.body if not (isinstance(st, ast.Expr) and isinstance(st.value, ast.Constant))]
    if body != [n]:
        return False
    subs = p.subclasses(c, strict=True)
    leaves = [s_ for s_ in subs if not p.subclasses(s_, strict=True)]
    if not leaves or any(p.lookup_method(s_, f.name) is f for s_ in leaves):
        return False
    for m in p.modules.values():
        for call in ast.walk(m.tree):
            if isinstance(call, ast.Call) and resolve_callee(p, call, m) == ("class", c):
                return False
    return True


def _raise_ctx(n):
    """Stable context descriptor for a raise: normalised text of the innermost guarding test, else its message prefix."""
    par = getattr(n, "_parent", None)
    while par is not None and not isinstance(par, (ast.If, ast.ExceptHandler, ast.FunctionDef, ast.For, ast.While)):
        par = getattr(par, "_parent", None)
    if isinstance(par, ast.If):
        return "if " + norm(par.test)[:60]
    if isinstance(par, ast.ExceptHandler):
        return "except " + (norm(par.type) if par.type is not None else "*")
    return "top"


def _unreachable_after_raise(n):
    par = getattr(n, "_parent", None)
    for fld in ("body", "orelse", "finalbody"):
        blk = getattr(par, fld, None)
        if isinstance(blk, list) and n in blk:
            i = blk.index(n)
            return i > 0 and isinstance(blk[i - 1], ast.Raise)
    return False


def r6(p, rep):
    rep.rule("C03.R6", "SyntaxError built by the parser quotes the caller's own text", "T-DER first argument", floor=8)
    m = p.module("namedtensor.stage1.parse")
    for f in p.funcs.values():
        if f.module is not m:
            continue
        for n in walk_no_nested(f.node):
            if not (isinstance(n, ast.Call)):
                continue
            nm = common.resolves_to_errors_class(p, m, n.func, f.node)
            if nm != "SyntaxError":
                continue
            site = f"{m.rel}:{n.lineno}"
            key = f"{f.qualname}:SyntaxError:{_raise_ctx(n)}"
            arg0 = n.args[0] if n.args else common.kwarg(n, "expression")
            # the top-level function's parameter that carries the caller's string
            top = f
            while top.parent is not None:
                top = top.parent
            text_params = [a for a in top.params[:1]]
            ok = isinstance(arg0, ast.Name) and arg0.id in text_params and not _reassigned(top, arg0.id)
            via = ""
            if not ok and f.cls is not None and isinstance(arg0, ast.Attribute) and isinstance(arg0.value, ast.Name) and f.params and arg0.value.id == f.params[0]:
                ok, via = _field_is_callers_text(p, f.cls, arg0.attr)
            rep.add("C03.R6", key, site, ok, f"first argument {src(arg0) if arg0 is not None else None!r}; caller text parameter of {top.name} is {text_params}{via}")


def _field_is_callers_text(p, cls, attr):
    """`self.<attr>` of a helper object: bound once, in __init__, to a constructor parameter, and every construction
    of the class passes the first parameter of the enclosing top-level function, unmodified"""
    stores = [(mth, a) for mth in cls.methods.values() for a in ast.walk(mth.node) if isinstance(a, ast.Attribute) and a.attr == attr and isinstance(a.ctx, (ast.Store, ast.Del))]
    init = cls.methods.get("__init__")
    if init is None or len(stores) != 1 or stores[0][0] is not init:
        return False, ""
    asg = getattr(stores[0][1], "_parent", None)
    if not (isinstance(asg, ast.Assign) and isinstance(asg.value, ast.Name) and asg.value.id in init.params[1:]) or _reassigned(init, asg.value.id):
        return False, ""
    idx = init.params.index(asg.value.id) - 1
    sites = 0
    for g in p.funcs.values():
        for c in walk_no_nested(g.node):
            if isinstance(c, ast.Call) and resolve_callee(p, c, g.module) == ("class", cls):
                a = c.args[idx] if idx < len(c.args) else common.kwarg(c, asg.value.id)
                top = g
                while top.parent is not None:
                    top = top.parent
                if not (isinstance(a, ast.Name) and a.id in top.params[:1] and not _reassigned(top, a.id)):
                    return False, ""
                sites += 1
    return sites > 0, f" (field of {cls.name}, constructed {sites}x with the caller's text)"


def _reassigned(func, name):
    for n in ast.walk(func.node):
        if isinstance(n, ast.Name) and n.id == name and isinstance(n.ctx, ast.Store):
            return True
    return False


def r7(p, rep):
    rep.rule("C03.R7", "every local is assigned before it is read on every feasible path (no UnboundLocalError)", "definite assignment over the CFG (may-be-unassigned dataflow; loops optimistic, correlated guards / flags recognised)", floor=300)
    from sa.defassign import DefiniteAssignment

    for f in p.funcs.values():
        if not isinstance(f.node, (ast.FunctionDef, ast.AsyncFunctionDef)) or f.module.name in OFF_PATH_MODULES:
            continue
        da = DefiniteAssignment(f.node, f.params)
        if not da.locals:
            continue
        bad = {}
        for name, x, node, why in da.reports():
            key = f"{f.qualname}:local:{name}"
            if why is None:
                bad.setdefault(key, (x, name))
            else:
                rep.ok("C03.R7", key + ":guarded", f"{f.module.rel}:{x.lineno}", f"`{name}` is read on a path without assignment only syntactically: {why}")
        for key, (x, name) in bad.items():
            rep.violation("C03.R7", key, f"{f.module.rel}:{x.lineno}", f"local `{name}` can be read before any assignment (a path from the function entry reaches this read without passing an assignment of `{name}`): UnboundLocalError, an internal exception type")
        if not bad:
            rep.ok("C03.R7", f"{f.qualname}:locals", f.loc, f"{len(da.locals)} locals are assigned on every path before each read")


def _returns_only_if_equal(g):
    """pairs of parameters (a, b) such that every normal exit of g is reached only with a == b (the function raises
    otherwise): `if a != b: raise ...`  or  `if a == b: return` followed by a raise"""
    from sa.cfg import CFG

    cfg = CFG(g.node)
    exits = [n for n in cfg.exit.pred]
    if not exits:
        return []
    common_pairs = None
    for e in exits:
        pairs = set()
        for t, pol in cfg.guards(e) + ([(e.test, e.polarity)] if e.kind == "edge" and e.test is not None else []):
            if isinstance(t, ast.Compare) and len(t.ops) == 1 and isinstance(t.left, ast.Name) and isinstance(t.comparators[0], ast.Name):
                if (isinstance(t.ops[0], ast.Eq) and pol) or (isinstance(t.ops[0], ast.NotEq) and not pol):
                    pairs.add((t.left.id, t.comparators[0].id))
                    pairs.add((t.comparators[0].id, t.left.id))
        common_pairs = pairs if common_pairs is None else common_pairs & pairs
    return sorted(p for p in (common_pairs or ()) if p[0] in g.params and p[1] in g.params)

def r8(p, rep):
    rep.rule("C03.R8", "sequences that come from different arguments of a validation entry point are zipped only after their lengths were compared (a surplus / missing tensor is an error, not silently truncated)", "T-DOM (length comparison dominates zip(strict=False))", floor=3)
    from sa.cfg import CFG

    cfgs = {}

    def cfg_of(f):
        if f.qualname not in cfgs:
            cfgs[f.qualname] = CFG(f.node)
        return cfgs[f.qualname]

    def judge(f, at, e1, e2, o1, o2, key, site, shown):
        """at: AST node whose dominating facts count; e1/e2: the two zipped expressions as written in f"""
        a1, a2 = norm(e1), norm(e2)
        ok = False
        cfg = cfg_of(f)
        facts = list(cfg.guards_of_ast(at))
        # facts established by dominating calls of checking helpers; as for the inline comparisons, a later
        # re-binding of the sequences (exprs_in = solve(...), tensors = [cast(t) for t in tensors]) keeps their
        # number, so the comparison is accepted by the names it mentions
        from sa.cfg import _facts_after_call

        nd_at = cfg.node_for(at)
        dom = cfg.dominators().get(nd_at.id, ()) if nd_at is not None else ()
        for nd in cfg.nodes:
            if nd.id in dom and nd.kind == "stmt" and isinstance(nd.ast, ast.Expr) and isinstance(nd.ast.value, ast.Call):
                facts += _facts_after_call(nd.ast.value)
        for t, pol in facts:
            if isinstance(t, ast.Compare) and len(t.ops) == 1 and isinstance(t.ops[0], (ast.Eq, ast.NotEq)):
                sides = {norm(t.left), norm(t.comparators[0])}
                # the compared sequences are the zipped ones or the parameters they are derived from
                alts1 = {f"len({x})" for x in {a1} | o1}
                alts2 = {f"len({x})" for x in {a2} | o2}
                if (sides & alts1) and (sides & alts2) and (isinstance(t.ops[0], ast.Eq) == pol):
                    ok = True
        rep.add("C03.R8", key, site, ok, f"reached only when len({a1}) == len({a2}) was established" if ok else f"`{shown[:60]}` pairs values that come from different arguments ({sorted(o1)} / {sorted(o2)}) without a preceding length comparison: with one tensor too many or too few the surplus is silently dropped and a plausible result is returned instead of the documented ValueError")

    for f in p.funcs.values():
        if not any(f.module.name.endswith(m) for m in VALIDATION_MODULES) or not isinstance(f.node, (ast.FunctionDef, ast.AsyncFunctionDef)):
            continue
        for c in walk_no_nested(f.node):
            if not (isinstance(c, ast.Call) and isinstance(c.func, ast.Name) and c.func.id == "zip" and len(c.args) == 2):
                continue
            if any(k.arg == "strict" and isinstance(k.value, ast.Constant) and k.value.value is True for k in c.keywords):
                continue
            # a private module-level helper that zips two of its own parameters is judged at its call sites
            if f.parent is None and f.cls is None and f.name.startswith("_") and all(isinstance(a, ast.Name) and a.id in f.params for a in c.args):
                sites = [(g, cc) for g in p.funcs.values() if g.module is f.module and g is not f for cc in walk_no_nested(g.node) if isinstance(cc, ast.Call) and resolve_callee(p, cc, g.module) == ("func", f)]
                if sites:
                    for g, cc in sites:
                        amap = {f.params[i]: a for i, a in enumerate(cc.args) if i < len(f.params) and not isinstance(a, ast.Starred)}
                        amap.update({k.arg: k.value for k in cc.keywords if k.arg})
                        e1, e2 = amap.get(c.args[0].id), amap.get(c.args[1].id)
                        if e1 is None or e2 is None:
                            continue
                        o1, o2 = common.origin_params(g, e1), common.origin_params(g, e2)
                        if not o1 or not o2 or (o1 & o2):
                            continue
                        judge(g, cc, e1, e2, o1, o2, f"{g.qualname}:{f.name}:zip({norm(e1)},{norm(e2)})", f"{g.module.rel}:{cc.lineno}", norm(cc))
                    continue
            o1, o2 = (common.origin_params(f, a) for a in c.args)
            if not o1 or not o2 or (o1 & o2):
                continue
            judge(f, c, c.args[0], c.args[1], o1, o2, f"{f.qualname}:zip({norm(c.args[0])},{norm(c.args[1])})", f"{f.module.rel}:{c.lineno}", norm(c))


def r9(p, rep):
    rep.rule("C03.R9", "the number of input expressions is validated before anything is derived from them", "T-DOM [S] (arity guard dominates the derivation of the output expressions)", floor=2)
    from sa.cfg import CFG

    f = p.func("_parse_op", "adapter.einx_from_namedtensor")
    # checks that were extracted into straight-line helpers (`el_op = _get_el_op(..)`) are read in place
    fnode = common.inline_lexical_helpers(f.node, depth=2)
    cfg = CFG(fnode)
    # role: the names handed to stage1.Op([Args(<in>), Args(<out>)])
    roles = None
    for n in walk_no_nested(fnode):
        if isinstance(n, ast.Call) and norm(n.func).endswith("Op") and n.args and isinstance(n.args[0], ast.List) and len(n.args[0].elts) == 2:
            a, b = n.args[0].elts
            if all(isinstance(x, ast.Call) and norm(x.func).endswith("Args") and x.args and isinstance(x.args[0], ast.Name) for x in (a, b)):
                roles = (a.args[0].id, b.args[0].id)
    if roles is None:
        raise AnalysisError("unrecognised idiom: _parse_op does not rebuild stage1.Op([Args(in), Args(out)]) from two names")
    in_name, out_name = roles

    def is_len(e):
        return isinstance(e, ast.Call) and isinstance(e.func, ast.Name) and e.func.id == "len" and e.args

    def input_side(e):
        return any(isinstance(x, ast.Subscript) and isinstance(x.slice, ast.Constant) and x.slice.value == 0 and isinstance(x.value, ast.Attribute) and x.value.attr == "children" for x in ast.walk(e))

    guards = []
    for n in walk_no_nested(fnode):
        if isinstance(n, ast.If) and block_always_raises(n.body) and cfg.node_for(n) is not None:
            t = cfg.expand(n.test, cfg.node_for(n))  # counts bound to locals first are written out
            if isinstance(t, ast.Compare) and len(t.ops) == 1 and isinstance(t.ops[0], ast.NotEq) and is_len(t.left) and is_len(t.comparators[0]) and input_side(t.left) and input_side(t.comparators[0]):
                guards.append(n)
    if not guards:
        rep.violation("C03.R9", f"{f.qualname}:input-arity-guard", f.loc, "no guard compares the number of given input expressions with the number the operation expects")
        return
    rep.ok("C03.R9", f"{f.qualname}:input-arity-guard", f"{f.module.rel}:{guards[0].lineno}", f"`{norm(guards[0].test)[:80]}` raises a documented error")
    derivs = [n for n in walk_no_nested(fnode) if isinstance(n, ast.Assign) and any(isinstance(t, ast.Name) and t.id == out_name for t in n.targets) and any(isinstance(x, ast.Name) and x.id == in_name for x in ast.walk(n.value))]
    if not derivs:
        raise AnalysisError(f"unrecognised idiom: `{out_name}` is never derived from `{in_name}` in _parse_op")
    late = []
    for d in derivs:
        facts = cfg.guards(cfg.node_for(d))
        if not any((not pol) and any(t is g.test for g in guards) for t, pol in facts):
            late.append(d)
    ok = not late
    rep.add("C03.R9", f"{f.qualname}:derivation-after-arity-check", f"{f.module.rel}:{(late[0] if late else derivs[0]).lineno}", ok, f"all {len(derivs)} derivations of `{out_name}` from `{in_name}` run after the arity check passed" if ok else f"`{norm(late[0])[:70]}` derives the output expressions before the number of input expressions was checked: a call with a surplus / missing expression reaches index and assert statements of the derivation (AssertionError / IndexError) instead of the documented SemanticError")



def r11(p, rep):
    rep.rule("C03.R11", "a local that may be None (None literal, dict.get, a project function that returns None on some path) is not dereferenced before it was tested (no AttributeError / TypeError on None)", "nullness dataflow over the statement CFG", floor=8)
    from sa.nullness import Nullness

    nn = Nullness(p)
    rep.info["functions_that_may_return_none"] = len(nn.mrn)
    for f in p.funcs.values():
        if not isinstance(f.node, (ast.FunctionDef, ast.AsyncFunctionDef)) or f.module.name in OFF_PATH_MODULES:
            continue
        n, hits = nn.analyse(f)
        if not n:
            continue
        seen = set()
        for tgt, x, why in hits:
            key = f"{f.qualname}:deref:{tgt.id}"
            if key in seen:
                continue
            seen.add(key)
            rep.violation("C03.R11", key, f"{f.module.rel}:{x.lineno}", f"`{norm(x)[:60]}` uses `{tgt.id}`, which may be None here ({why}) and is not tested on this path: AttributeError / TypeError (internal exception types) instead of a documented error")
        if not hits:
            rep.ok("C03.R11", f"{f.qualname}:maybe-none-locals", f.loc, f"{n} maybe-None binding(s); every dereference is behind a None test")


def run(p, rep, tier):
    r1(p, rep)
    r2(p, rep, tier)
    rep.rule("C03.R3", "solver failures never escape unconverted", "T-DOM try/except coverage over the call graph", floor=4)
    common.solver_failures_mapped(p, rep, "C03.R3")
    r4(p, rep)
    r5(p, rep)
    r6(p, rep)
    r7(p, rep)
    r8(p, rep)
    r9(p, rep)
    r11(p, rep)
    from . import c01 as _c01

    _c01.r11(p, rep)  # an operation declared unsupported must stay unsupported (documented OperationNotSupportedError)
    # clauses shared with C02 / C12 whose violation surfaces as an internal exception type of an entry point
    from . import c02, c12

    from . import c09 as _c09

    _c09.r8(p, rep)  # a two-operand operation registered behind the n-ary fold accepts any number of tensors
    c02.r6(p, rep)  # non-integer sizes are rejected by a guard, not by a failing conversion deep in the solver
    c12.r12(p, rep)  # positions of synthesised nodes must not reach the error constructors
    c12.r7(p, rep)  # an exclusive end position used as a caret position trips the asserts of the error constructors
    c12.r9(p, rep)  # an element taken from a sequence before the guard that protects it raises IndexError
    c12.r8(p, rep)  # a number test that disagrees with int() lets int() raise instead of the parser
    rep.assume("exceptions raised by third-party code (numpy, sympy) outside the wrapped call are not modelled")
    # inventory (does not gate): assert statements in the validation layer, split by whether the tested expression
    # mentions a parameter of the enclosing function (input-dependent candidates) or only locals / constants
    inv = {}
    for f in p.funcs.values():
        if not any(f.module.name.endswith(m) for m in VALIDATION_MODULES):
            continue
        params = set(f.params)
        for n in walk_no_nested(f.node):
            if isinstance(n, ast.Assert):
                dep = any(isinstance(x, ast.Name) and x.id in params for x in ast.walk(n.test))
                d = inv.setdefault(f.module.rel, {"asserts": 0, "mention_a_parameter": 0})
                d["asserts"] += 1
                d["mention_a_parameter"] += dep
    rep.info["assert_inventory_validation_layer"] = inv
    rep.info["undecided"] = "input-dependent assert statements and value-level validation; only the structural clauses R1-R6 are decided"
