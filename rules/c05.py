"""C05 - graph optimisation never changes what an operation computes, and terminates.

Decided clauses:
 R1 [S] merged transpose: new permutation = inner permutation indexed by the outer one
 R2 [S] merged reshape keeps the outer shape and the innermost operand
 R3 node-dropping rewrites are guarded by an identity test (shape / permutation / signature equality)
 R4 every firing rewrite returns a strict sub-term or one call over sub-terms (decreasing measure => termination)
 R5 un-matched values are rebuilt completely (IR nodes: C04.R4d; python value kinds: every component)
 R6 fixed-point loop: fresh memo per pass, leave only when nothing changed, changed-flag and memo set before a fired return
 R7 every backend instantiates the patterns with its own matching primitives
 R8 only identity casts are looked through when matching (asserts and calls are never skipped)
"""

from __future__ import annotations

import ast
import re

from sa.cfg import CFG
from sa.core import AnalysisError, attr_chain, enclosing, norm, parents, resolve_callee, src, walk_no_nested

from . import backends, c04, common, ir


def patterns(p):
    mods = (p.module("tracer.optimizer.classical"), p.module("tracer.optimizer.graph"))
    # concrete pattern classes: public classes of the two modules whose instances are callable (the method may be
    # inherited from a shared base class with hook methods)
    out = [c for c in p.classes.values() if c.module in mods and p.lookup_method(c, "__call__") is not None and not c.name.startswith("_") and not p.subclasses(c, strict=True)]
    if len(out) < 6:
        raise AnalysisError(f"anchor vanished: expected >= 6 optimizer patterns, found {[c.name for c in out]}")
    return out


def pattern_call(p, clsname, module):
    """__call__ of a pattern class as it runs for that class (hooks of a shared base class written out)"""
    c = p.cls(clsname, module)
    f = common.specialised(p, c, "__call__")
    if f is None:
        raise AnalysisError(f"anchor vanished: {clsname} is not callable")
    return f


def _perm_role(P, e):
    """'outer' if the value is the matched node's own parameter (x.origin.args[1]); 'inner' if it is the parameter
    of the node reached through x's operand (~(x.origin.args[0]).origin.args[1])."""
    pth = P.path(e)
    for wrap in ("tuple(", "list("):
        if pth.startswith(wrap) and pth.endswith(")"):
            pth = pth[len(wrap) : -1]
    if pth == "x.origin.args[1]":
        return "outer"
    if pth.endswith(".origin.args[1]") and "x.origin.args[0]" in pth and pth.count(".origin.") >= 2:
        return "inner"
    return None


def _index_comps(node):
    """comprehensions of the form `A[p] for p in B` below node"""
    out = []
    for n in ast.walk(node):
        if isinstance(n, (ast.GeneratorExp, ast.ListComp)) and isinstance(n.elt, ast.Subscript) and len(n.generators) == 1 and isinstance(n.generators[0].target, ast.Name):
            if isinstance(n.elt.slice, ast.Name) and n.elt.slice.id == n.generators[0].target.id:
                out.append(n)
    return out


def r1(p, rep):
    rep.rule("C05.R1", "merged transpose = inner permutation indexed by the outer permutation", "T-DER [S]", floor=1)
    f = pattern_call(p, "SkipTranspose", "tracer.optimizer.classical")
    P = Paths(p, f, identity_skipper(p))
    found = []
    # (a) the composition written in the pattern itself
    for c in [c for n in walk_no_nested(f.node) if isinstance(n, (ast.Assign, ast.Return, ast.Expr)) for c in _index_comps(n)]:
        found.append((c, _perm_role(P, c.elt.value), _perm_role(P, c.generators[0].iter)))
    # (b) written in a helper of the optimiser package: compose(a, b) -> `a[p] for p in b` over its parameters
    for n in walk_no_nested(f.node):
        if isinstance(n, ast.Call):
            r = resolve_callee(p, n, f.module)
            if r and r[0] == "func" and r[1].module.name.startswith("einx._src.tracer.optimizer") and r[1] is not identity_skipper(p):
                h = r[1]
                for c in _index_comps(h.node):
                    a, b = c.elt.value, c.generators[0].iter
                    if isinstance(a, ast.Name) and isinstance(b, ast.Name) and a.id in h.params and b.id in h.params:
                        ia, ib = h.params.index(a.id), h.params.index(b.id)
                        if ia < len(n.args) and ib < len(n.args):
                            found.append((c, _perm_role(P, n.args[ia]), _perm_role(P, n.args[ib])))
    # numpy style: np.take(inner, outer)
    for n in walk_no_nested(f.node):
        if isinstance(n, ast.Call) and norm(n.func).endswith(".take") and len(n.args) == 2:
            found.append((n, _perm_role(P, n.args[0]), _perm_role(P, n.args[1])))
    found = [x for x in found if x[1] or x[2]]
    if not found:
        # no composition anywhere: does the merge hand one of the two permutations on as it is?
        for r in _firing_returns(f):
            call = r.value.elts[1]
            if isinstance(call, ast.Call) and norm(call.func).endswith("python.call") and len(call.args) > 1 and isinstance(call.args[1], ast.List) and len(call.args[1].elts) == 2:
                a1 = call.args[1].elts[1]
                role = _perm_role(P, a1)
                if role in ("outer", "inner"):
                    rep.violation("C05.R1", f"{f.qualname}:compose", f"{f.module.rel}:{r.lineno}", f"two consecutive transposes are merged into one that uses the {role} permutation `{norm(a1)}` as it is: the {'inner' if role == 'outer' else 'outer'} permutation is dropped - transpose(transpose(x, inner), outer) equals transpose(x, [inner[p] for p in outer]) (for SkipTranspose the composing hook is not the one the shared template calls?)")
                    return
        raise AnalysisError("unrecognised idiom: SkipTranspose does not compose permutations in a recognised form (inner[p] for p in outer / helper(inner, outer) / np.take(inner, outer))")
    for c, ri, ro in found:
        ok = ri == "inner" and ro == "outer"
        rep.add(
            "C05.R1",
            f"{f.qualname}:compose",
            f"{f.module.rel}:{c.lineno}",
            ok,
            f"`{norm(c)[:60]}`: indexes the {ri} permutation by the elements of the {ro} one" + ("" if ok else " - transpose(transpose(x, inner), outer) equals transpose(x, [inner[p] for p in outer]); the reverse order is only right when the permutations commute"),
        )


def _firing_returns(f):
    out = []
    for n in walk_no_nested(f.node):
        if isinstance(n, ast.Return) and isinstance(n.value, ast.Tuple) and len(n.value.elts) == 2 and isinstance(n.value.elts[0], ast.Constant) and n.value.elts[0].value is True:
            out.append(n)
    return out


def r2(p, rep):
    rep.rule("C05.R2", "merged reshape keeps the outer shape and the innermost operand", "T-DER [S]", floor=1)
    f = pattern_call(p, "SkipReshape", "tracer.optimizer.classical")
    P = Paths(p, f, identity_skipper(p))
    merges = [r for r in _firing_returns(f) if isinstance(r.value.elts[1], ast.Call) and norm(r.value.elts[1].func).endswith("python.call")]
    if not merges:
        raise AnalysisError("unrecognised idiom: SkipReshape has no merge rewrite")
    tr = f.params[2]
    for r in merges:
        call = r.value.elts[1]
        fn = call.args[0] if call.args else None
        lst = call.args[1] if len(call.args) > 1 else None
        ok_fn = fn is not None and isinstance(fn, ast.Call) and norm(fn.func) == tr and P.path(fn.args[0]) == "x.origin.function"
        ok_args = isinstance(lst, ast.List) and len(lst.elts) == 2
        why = "merge call not in the form call(transform(x.origin.function), [transform(innermost), outer_shape])"
        if ok_args:
            a0, a1 = lst.elts
            p0 = P.path(a0.args[0]) if isinstance(a0, ast.Call) and norm(a0.func) == tr and a0.args else "?"
            inner_operand = p0.count(".origin.args[0]") >= 2 and "x.origin.args[0]" in p0
            outer_shape = P.path(a1) == "x.origin.args[1]"
            ok_args = inner_operand and outer_shape
            why = f"operand {p0} ({'innermost' if inner_operand else 'NOT the innermost operand'}), shape {P.path(a1)} ({'outer' if outer_shape else 'NOT the outer shape'})"
        rep.add("C05.R2", f"{f.qualname}:merge", f"{f.module.rel}:{r.lineno}", ok_fn and ok_args, why)


class Paths:
    """Access paths of local values relative to the matched node parameter x of a pattern's __call__:
    `input = x.origin.args[0]` -> 'x.origin.args[0]';  `input = _skip_id(input)` -> '~(x.origin.args[0])';
    `cast = x.origin; cast.input` -> 'x.origin.input'."""

    def __init__(self, p, f, skipper):
        self.p, self.f, self.skipper = p, f, skipper
        self.x = f.params[1]

    def path(self, e, depth=0, before=None):
        if depth > 10 or e is None:
            return norm(e) if e is not None else "?"
        if isinstance(e, ast.Name):
            if e.id == self.x:
                return "x"
            defs = [n for n in walk_no_nested(self.f.node) if isinstance(n, ast.Assign) and len(n.targets) == 1 and isinstance(n.targets[0], ast.Name) and n.targets[0].id == e.id]
            line = before if before is not None else getattr(e, "lineno", 10**9)
            prior = [d for d in defs if d.lineno < line] or defs
            if not prior:
                return e.id
            d = prior[-1]
            return self.path(d.value, depth + 1, before=d.lineno)
        if isinstance(e, ast.Attribute):
            return self.path(e.value, depth + 1, before) + "." + e.attr
        if isinstance(e, ast.Subscript):
            return self.path(e.value, depth + 1, before) + "[" + norm(e.slice) + "]"
        if isinstance(e, ast.Call):
            r = resolve_callee(self.p, e, self.f.module)
            if r and r[0] == "func" and r[1] is self.skipper and e.args:
                return "~(" + self.path(e.args[0], depth + 1, before) + ")"
            inner = ", ".join(self.path(a, depth + 1, before) for a in e.args)
            return norm(e.func) + "(" + inner + ")"
        if isinstance(e, (ast.ListComp, ast.GeneratorExp)):
            g = e.generators[0]
            return "[" + norm(e.elt) + " for " + norm(g.target) + " in " + self.path(g.iter, depth + 1, before) + "]"
        return norm(e)

    def is_subterm(self, e):
        pth = self.path(e)
        core = pth.replace("~(", "")
        return core.startswith("x.") and core != "x", pth


def _loop_guard_facts(f, cfg, ret_node):
    """`for v in S: if C: return False, None` loops that precede the return: contribute (C, False)"""
    out = []
    for n in walk_no_nested(f.node):
        if isinstance(n, ast.For) and len(n.body) == 1 and isinstance(n.body[0], ast.If) and not n.body[0].orelse:
            iff = n.body[0]
            if len(iff.body) == 1 and isinstance(iff.body[0], ast.Return) and isinstance(iff.body[0].value, ast.Tuple) and isinstance(iff.body[0].value.elts[0], ast.Constant) and iff.body[0].value.elts[0].value is False:
                done = [e for e in cfg.nodes if e.kind == "edge" and e.ast is n and e.polarity is False]
                if done and cfg.dominates(done[0], ret_node):
                    out.append((iff.test, False))
    return out


def r3_r4(p, rep):
    rep.rule("C05.R3", "node-dropping rewrites are guarded by an identity test", "T-DOM", floor=5)
    rep.rule("C05.R4", "firing rewrites return a strict sub-term or one call over sub-terms", "decreasing measure", floor=8)
    skipper = identity_skipper(p)
    n_drop = 0
    for c in patterns(p):
        f = common.specialised(p, c, "__call__")
        cfg = CFG(f.node)
        P = Paths(p, f, skipper)
        tr = f.params[2] if len(f.params) > 2 else "transform"
        for r in _firing_returns(f):
            e = r.value.elts[1]
            site = f"{f.module.rel}:{r.lineno}"
            rn = cfg.node_for(r)
            facts = cfg.guards(rn) + _loop_guard_facts(f, cfg, rn)
            # facts with locals replaced by access paths
            rfacts = []
            for t, pol in facts:
                if isinstance(t, ast.Compare) and len(t.ops) == 1:
                    rfacts.append((type(t.ops[0]).__name__, P.path(t.left), P.path(t.comparators[0]), pol, t))
                elif isinstance(t, ast.Call):
                    rfacts.append(("call", P.path(t), "", pol, t))
                else:
                    rfacts.append(("expr", P.path(t), "", pol, t))
            if isinstance(e, ast.Call) and isinstance(e.func, ast.Name) and e.func.id == tr and len(e.args) == 1:
                sub, pth = P.is_subterm(e.args[0])
                if not sub and pth.startswith("None"):
                    # where the replacement comes from cannot be followed (it is reached through a loop variable, an
                    # element of a sequence, ...): a rewrite of a kind this rule has no model of - no verdict
                    raise AnalysisError(f"unrecognised idiom: {f.qualname} returns transform({norm(e.args[0])[:40]}) whose origin in the matched node cannot be followed (a new kind of rewrite)")
                key = f"{f.qualname}:return(transform({pth}))"
                rep.add("C05.R4", key, site, sub, f"replacement transform({pth}) is a strict sub-term of the matched node" if sub else f"`{norm(e.args[0])}` (= {pth}) is not derived from a strict sub-term of the matched node: the rewrite need not make the graph smaller")
                n_drop += 1
                if c.name == "InlineGraph" or ".function" in pth:
                    same = any((k in ("NotEq",) and not pol or k in ("Eq",) and pol) and "x.inputs" in (a + b) and ".args" in (a + b) for k, a, b, pol, t in rfacts) or any(k == "call" and pol and "x.inputs" in a and ".args" in a and _helper_compares_identity(p, f, t) for k, a, b, pol, t in rfacts)
                    nokw = any(".kwargs" in (a + b) and ((k == "Eq" and pol and (a == "0" or b == "0")) or (k == "NotEq" and not pol and (a == "0" or b == "0")) or (k == "expr" and not pol)) for k, a, b, pol, t in rfacts)
                    indep = any("depends_on(" in (a + b) and not pol for k, a, b, pol, t in rfacts)
                    ok = same and nokw and indep
                    rep.add("C05.R3", key, site, ok, "inlined only when the call takes exactly the graph inputs (identity), no keywords, and the function does not depend on them" if ok else f"the wrapper graph is inlined without all of: same inputs by identity ({same}), no keywords ({nokw}), function independent of the inputs ({indep})")
                else:
                    good = []
                    for k, a, b, pol, t in rfacts:
                        if not ((k == "Eq" and pol) or (k == "NotEq" and not pol)):
                            continue
                        both = a + " " + b
                        if "len(" in both and (a == "1" or b == "1"):
                            good.append(t)  # a one-element concatenation
                        elif "x.origin.input" in both and "x.origin.output" in both:
                            good.append(t)  # cast: signature(input) == signature(output)
                        elif ("x.origin.args[1]" in both) and ((".shape" in both) or (".ndim" in both)) and "x.origin.args[0]" in both:
                            # the node's parameter ITSELF is compared with something computed from the operand alone
                            # (`perm == range(ndim)`, `shape == input.shape`); a test in which the parameter only selects
                            # from the operand (`shape[p] for p in perm` == shape) also holds for non-identity parameters
                            def bare(z):
                                for wr in ("tuple(", "list("):
                                    if z.startswith(wr) and z.endswith(")"):
                                        z = z[len(wr) : -1]
                                return z

                            pa, pb = bare(a), bare(b)
                            if (pa == "x.origin.args[1]" and "x.origin.args[1]" not in pb) or (pb == "x.origin.args[1]" and "x.origin.args[1]" not in pa):
                                good.append(t)  # parameter of the node vs shape / rank of its operand
                    rep.add("C05.R3", key, site, bool(good), f"dropped only under `{norm(good[0])}`" if good else f"the node is dropped without an equality test between its parameter and its operand's shape/rank/signature (guards: {[(k, a, b, pol) for k, a, b, pol, t in rfacts][-3:]})")
            elif isinstance(e, ast.Call) and norm(e.func).endswith("python.call"):
                subs = [a for a in ast.walk(e) if isinstance(a, ast.Call) and isinstance(a.func, ast.Name) and a.func.id == tr]
                paths = [P.is_subterm(s_.args[0]) for s_ in subs]
                ok = bool(subs) and all(su for su, _ in paths)
                deep = any(pt.count(".origin.args[0]") >= 2 for _, pt in paths)
                key = f"{f.qualname}:return(merge)"
                rep.add("C05.R4", key, site, ok and deep, f"two nested calls are replaced by one call over the innermost operand ({[pt for _, pt in paths]})" if ok and deep else f"the merge does not remove a node (operands {[pt for _, pt in paths]} are not two levels down)")
            else:
                rep.add("C05.R4", f"{f.qualname}:return({norm(e)[:40]})", site, False, f"replacement `{norm(e)[:60]}` is neither transform(<sub-term>) nor one call over sub-terms")
    if n_drop < 5:
        raise AnalysisError(f"only {n_drop} node-dropping rewrites found")


def _helper_compares_identity(p, f, call):
    r = resolve_callee(p, call, f.module)
    if not (r and r[0] == "func"):
        return False
    body = " ".join(norm(st) for st in r[1].node.body)
    return " is " in body or "id(" in body


def _arm_bodies(p, f):
    """value-kind arms of the structural rebuild that Optimizer._optimize ends in: kind -> (statements, name of the
    matched value), plus the names under which the recursion (`self._optimize`) is known inside those statements.
    The dispatch may sit in _optimize itself or in functions it hands the value to (`return rebuild(x, self._optimize,
    ..)`, `return self._optimize_graph(x)`, a final `else: return _rebuild_container(x, transform)`): such delegations
    are followed through the resolved callee, in whatever module it lives."""
    from sa.exh import find_chains

    out = {}
    callables = {"_optimize"}
    seen = set()

    def delegate(body, subjects, g):
        body = [st for st in body if not (isinstance(st, ast.Expr) and isinstance(st.value, ast.Constant))]
        if not (len(body) == 1 and isinstance(body[0], ast.Return) and isinstance(body[0].value, ast.Call)):
            return None
        call = body[0].value
        h, off = None, 0
        if isinstance(call.func, ast.Attribute) and isinstance(call.func.value, ast.Name) and g.cls is not None and g.params and call.func.value.id == g.params[0]:
            h, off = p.lookup_method(g.cls, call.func.attr), 1
        else:
            r = resolve_callee(p, call, g.module)
            if r and r[0] == "func" and r[1].cls is None:
                h = r[1]
        if h is None or any(isinstance(a, ast.Starred) for a in call.args):
            return None
        param = None
        for i, a in enumerate(call.args):
            if i + off >= len(h.params):
                break
            if norm(a) in subjects and param is None:
                param = h.params[i + off]
            elif norm(a).split(".")[-1] in callables:
                callables.add(h.params[i + off])
        for k in call.keywords:
            if k.arg and norm(k.value).split(".")[-1] in callables:
                callables.add(k.arg)
        return (h, param) if param is not None else None

    def collect(g, subjects, depth):
        if g in seen or depth > 4:
            return
        seen.add(g)
        chains = [c for c in find_chains(p, g, open_tail=True) if c.kind == "class"]
        if not chains:
            d = delegate(g.node.body[-1:], subjects, g)
            if d is not None:
                collect(d[0], {d[1]}, depth + 1)
            return
        ch = max(chains, key=lambda c: len(c.arms))
        # every arm's test belongs to one `if` (of an elif chain or of a sequence of `if ...: return`): its body is the arm
        for arm in ch.arms:
            if not arm.body:
                continue
            kinds = [c.name for c in arm.classes] + [t.split(".")[-1] for t in arm.other_types]
            body, xname = arm.body, arm.subject_name
            d = delegate(body, {ch.subject}, g)
            if d is not None:
                body, xname = d[0].node.body, d[1]
            for k in kinds:
                out.setdefault(k, (body, xname))
        # the final `else:` of the chain may hand the remaining kinds to another dispatcher
        node = ch.head
        while isinstance(node, ast.If) and len(node.orelse) == 1 and isinstance(node.orelse[0], ast.If):
            node = node.orelse[0]
        if isinstance(node, ast.If) and node.orelse:
            d = delegate(node.orelse, {ch.subject}, g)
            if d is not None:
                collect(d[0], {d[1]}, depth + 1)

    collect(f, set(f.params), 0)
    if not out:
        raise AnalysisError("unrecognised idiom: Optimizer._optimize has no isinstance dispatch over value kinds (neither itself nor in the function it hands the value to)")
    return out, callables


def r5(p, rep):
    rep.rule("C05.R5", "values that no pattern matched are rebuilt completely", "T-SIB (rebuild completeness per value kind)", floor=5)
    f = p.func("Optimizer._optimize", "tracer.optimizer.optimizer")
    arms, recursion = _arm_bodies(p, f)
    site = f.loc

    def reads(body, x):
        return {n.attr for st in body for n in ast.walk(st) if isinstance(n, ast.Attribute) and isinstance(n.value, ast.Name) and n.value.id == x}

    def iterates_fully(body, x, items=False):
        """the arm iterates x (or x.items()) in a for-loop / comprehension without filter, break or continue"""
        want = f"{x}.items()" if items else x
        for st in body:
            for n in ast.walk(st):
                if isinstance(n, ast.comprehension) and norm(n.iter) == want:
                    if not n.ifs:
                        return True
                if isinstance(n, ast.For) and norm(n.iter) == want:
                    if not any(isinstance(y, (ast.Break, ast.Continue)) for y in ast.walk(n)) and not any(isinstance(y, ast.If) for y in n.body):
                        return True
        return False

    need = {"slice", "Graph", "dict"}
    if not need <= set(arms) or not ({"list", "tuple"} & set(arms)):
        raise AnalysisError(f"unrecognised idiom: Optimizer._optimize lacks a rebuild arm for one of slice/Graph/list/tuple/dict (found {sorted(arms)})")
    body, x = arms["slice"]
    r = reads(body, x)
    calls = [n for st in body for n in ast.walk(st) if isinstance(n, ast.Call) and isinstance(n.func, ast.Name) and n.func.id == "slice"]
    def nargs(c):
        k = 0
        for a in c.args:
            if isinstance(a, ast.Starred):
                v = a.value
                # slice(*(f(i) for i in (x.start, x.stop, x.step))): as many arguments as the literal has elements
                if isinstance(v, (ast.GeneratorExp, ast.ListComp)) and len(v.generators) == 1 and not v.generators[0].ifs and isinstance(v.generators[0].iter, (ast.Tuple, ast.List)):
                    k += len(v.generators[0].iter.elts)
                elif isinstance(v, (ast.Tuple, ast.List)):
                    k += len(v.elts)
                else:
                    return None
            else:
                k += 1
        return k

    ok = {"start", "stop", "step"} <= r and any(nargs(c) == 3 for c in calls)
    rep.add("C05.R5", f"{f.qualname}:rebuild:slice", site, ok, f"slice rebuilt from {sorted(r & {'start', 'stop', 'step'})} with a 3-argument slice(...)" if ok else f"the slice arm reads only {sorted(r)} / builds slice({[nargs(c) for c in calls]} args): a component of start/stop/step is dropped, e.g. x[::-1] silently becomes x[:]")
    body, x = arms["Graph"]
    r = reads(body, x)
    ok = {"inputs", "output", "name"} <= r
    rep.add("C05.R5", f"{f.qualname}:rebuild:Graph", site, ok, "Graph rebuilt from inputs, output and name" if ok else f"the Graph arm reads only {sorted(r)}")
    for kind in ("list", "tuple"):
        if kind in arms:
            body, x = arms[kind]
            ok = iterates_fully(body, x)
            rep.add("C05.R5", f"{f.qualname}:rebuild:{kind}", site, ok, f"{kind} rebuilt element-wise without filter" if ok else f"the {kind} arm does not rebuild every element")
    body, x = arms["dict"]
    text = " ".join(norm(st) for st in body)
    ok = iterates_fully(body, x, items=True) and sum(len(re.findall(r"(?<![A-Za-z0-9_])" + re.escape(c) + r"\(", text)) for c in recursion) >= 2
    rep.add("C05.R5", f"{f.qualname}:rebuild:dict", site, ok, "dict rebuilt over all items, keys and values transformed" if ok else "the dict arm does not rebuild every key and value")
    # tracer branch: delegates to _tracer_transform (checked per class by C04.R4d)
    fs = common.with_helpers(p, f, depth=3, same_module_only=False)
    ok = any(isinstance(n, ast.Call) and isinstance(n.func, ast.Attribute) and n.func.attr == "_tracer_transform" for n in common.nodes_of(fs))
    rep.add("C05.R5", f"{f.qualname}:rebuild:tracer", f.loc, ok, "tracers are rebuilt by origin._tracer_transform(self._optimize) (completeness per node class: C04.R4)")


def r6(p, rep):
    rep.rule("C05.R6", "fixed-point loop with a fresh memo per pass", "T-DOM", floor=4)
    f = p.func("optimize", "tracer.optimizer.optimizer")
    loops = [n for n in walk_no_nested(f.node) if isinstance(n, ast.While)]
    if len(loops) != 1:
        raise AnalysisError("unrecognised idiom: optimize() has no single while loop")
    w = loops[0]
    ctor = [n for n in ast.walk(w) if isinstance(n, ast.Call) and (lambda r: r and r[0] == "class" and r[1].name == "Optimizer")(resolve_callee(p, n, f.module))]
    ctor_outside = [n for n in walk_no_nested(f.node) if isinstance(n, ast.Call) and (lambda r: r and r[0] == "class" and r[1].name == "Optimizer")(resolve_callee(p, n, f.module)) and not any(par is w for par in parents(n))]
    rep.add("C05.R6", f"{f.qualname}:fresh-memo", f"{f.module.rel}:{w.lineno}", bool(ctor) and not ctor_outside, "Optimizer(...) (memo + changed flag) is constructed inside the loop, once per pass" if ctor and not ctor_outside else "the Optimizer (memo of rewritten nodes, changed flag) is reused across passes: stale entries map old nodes to results of an earlier pass / the loop never terminates or stops early")
    # leaves the loop only when nothing changed
    cfg = CFG(f.node)
    breaks = [n for n in ast.walk(w) if isinstance(n, (ast.Break, ast.Return))]  # every way out of the loop
    ok = False
    if isinstance(w.test, ast.Constant) and w.test.value is True:
        ok = bool(breaks) and all(any(norm(t).endswith(".changed") and pol is False for t, pol in cfg.guards(cfg.node_for(b))) for b in breaks)
    else:
        ok = "changed" in norm(w.test)
        if not ok:
            names = {x.id for x in ast.walk(w.test) if isinstance(x, ast.Name)}
            inloop = [a for a in ast.walk(w) if isinstance(a, ast.Assign) and any(isinstance(t, ast.Name) and t.id in names for t in a.targets)]
            # flag loop: `done = not optimizer.changed` / `again = optimizer.changed`, no other exit
            ok = bool(inloop) and all(".changed" in norm(a.value) for a in inloop) and not breaks
            if ok:
                a = inloop[-1]
                negated_assign = isinstance(a.value, ast.UnaryOp) and isinstance(a.value.op, ast.Not)
                negated_test = isinstance(w.test, ast.UnaryOp) and isinstance(w.test.op, ast.Not)
                ok = negated_assign == negated_test  # continue exactly while the last pass changed something
    rep.add("C05.R6", f"{f.qualname}:exit-condition", f"{f.module.rel}:{w.lineno}", ok, "the loop is left only when a whole pass fired no pattern" if ok else "the loop can be left although the last pass still changed the graph (no fixed point)")
    g = p.func("Optimizer._optimize", "tracer.optimizer.optimizer")
    cfgg = CFG(g.node)
    setc = [n for n in walk_no_nested(g.node) if isinstance(n, ast.Assign) and norm(n.targets[0]).endswith(".changed") and isinstance(n.value, ast.Constant) and n.value.value is True]
    if not setc:
        raise AnalysisError("unrecognised idiom: Optimizer._optimize never sets the changed flag")
    # fired returns: value returns that lie in the same block as the flag assignment (the pattern-fired path)
    fired = []
    for sc in setc:
        par = getattr(sc, "_parent", None)
        for fld in ("body", "orelse"):
            blk = getattr(par, fld, None)
            if isinstance(blk, list) and sc in blk:
                fired += [st for st in blk if isinstance(st, ast.Return) and st.value is not None]
    # a return reachable on the fired path (pattern matched) that is NOT dominated by the flag assignment
    pattern_calls = [n for n in common.nodes_of(common.with_helpers(p, g)) if isinstance(n, ast.Call) and len(n.args) == 2 and norm(n.args[1]).endswith("._optimize")]
    if not fired or not pattern_calls:
        raise AnalysisError("unrecognised idiom: pattern application / fired return not found in Optimizer._optimize")
    # the memo: the self attribute that the lookup `self.M[id(x)]` reads; its writers are the methods that store into it
    looked_up = {n.value.attr for n in walk_no_nested(g.node) if isinstance(n, ast.Subscript) and isinstance(n.ctx, ast.Load) and isinstance(n.value, ast.Attribute) and isinstance(n.value.value, ast.Name) and n.value.value.id == g.params[0]}
    stored = {n.value.attr: m.name for m in g.cls.methods.values() for n in walk_no_nested(m.node) if isinstance(n, ast.Subscript) and isinstance(n.ctx, ast.Store) and isinstance(n.value, ast.Attribute) and isinstance(n.value.value, ast.Name) and n.value.value.id == m.params[0]}
    memo_attrs = looked_up & set(stored)
    writers = {m.name for m in g.cls.methods.values() for n in walk_no_nested(m.node) if isinstance(n, ast.Subscript) and isinstance(n.ctx, ast.Store) and isinstance(n.value, ast.Attribute) and n.value.attr in memo_attrs}
    if not memo_attrs or not writers:
        raise AnalysisError("unrecognised idiom: Optimizer has no id-keyed memo of rewritten nodes")
    memo = [n for n in walk_no_nested(g.node) if isinstance(n, ast.Expr) and any(isinstance(x, ast.Attribute) and x.attr in writers and isinstance(x.value, ast.Name) and x.value.id == g.params[0] for x in ast.walk(n.value))]
    memo += [n for n in walk_no_nested(g.node) if isinstance(n, ast.Assign) and any(isinstance(t, ast.Subscript) and isinstance(t.value, ast.Attribute) and t.value.attr in memo_attrs for t in n.targets)]
    for r in fired:
        rn = cfgg.node_for(r)
        ok1 = any(cfgg.dominates(cfgg.node_for(s_), rn) for s_ in setc)
        ok2 = any(cfgg.dominates(cfgg.node_for(m), rn) for m in memo)
        rep.add("C05.R6", f"{g.qualname}:changed-before-return", f"{g.module.rel}:{r.lineno}", ok1, "self.changed = True dominates the fired return" if ok1 else "a pattern can fire without setting the changed flag: the fixed-point loop stops one pass early")
        rep.add("C05.R6", f"{g.qualname}:memo-before-return", f"{g.module.rel}:{r.lineno}", ok2, "the old->new memo is updated before the fired return" if ok2 else "the rewritten node is not memoised: a shared sub-graph is rewritten into several distinct copies")
    # memo lookup comes first: the first statement(s) return the memoised object before any pattern is tried
    hit = None
    for st in g.node.body[:3]:
        if isinstance(st, ast.If) and any(isinstance(x, ast.Return) for x in st.body):
            text = norm(st.test) + " " + " ".join(norm(b) for b in st.body)
            prior = " ".join(norm(b) for b in g.node.body[: g.node.body.index(st)])
            if "id_to_newobj" in text or "id_to_newobj" in prior:
                hit = st
                break
    first_pattern = min((cfgg.node_for(c) for c in walk_no_nested(g.node) if isinstance(c, ast.Call) and (c in pattern_calls or (isinstance(c.func, ast.Attribute) and p.lookup_method(g.cls, c.func.attr) in common.with_helpers(p, g)[1:] and any(pc for pc in pattern_calls)))), key=lambda n: n.id if n else 10**9, default=None)
    ok = hit is not None
    rep.add("C05.R6", f"{g.qualname}:memo-lookup-first", g.loc, ok, "memo hit is returned before any pattern is tried (shared nodes stay shared)" if ok else "the memo of already rewritten nodes is not consulted first")


PRIM_ALIASES = {
    "SkipReshape": {"reshape"},
    "SkipTranspose": {"transpose", "permute"},
    "SkipBroadcastTo": {"broadcast_to", "expand"},  # tinygrad names broadcast_to `expand`
    "SkipConcatenate": {"concatenate", "cat", "concat"},
}


def r7(p, rep):
    rep.rule("C05.R7", "backends instantiate the patterns with their own matching primitives", "T-TAB", floor=20)
    n = 0
    for fw, m in backends.impl_modules(p).items():
        for node in ast.walk(m.tree):
            if isinstance(node, ast.Call):
                ch = attr_chain(node.func)
                if ch and ch[-1] in PRIM_ALIASES and node.args:
                    n += 1
                    prim = attr_chain(node.args[0])
                    ok = bool(prim) and prim[-1] in PRIM_ALIASES[ch[-1]]
                    f = p.func_containing(node)
                    rep.add("C05.R7", f"{f.qualname if f else m.name}:{ch[-1]}({norm(node.args[0])})", f"{m.rel}:{node.lineno}", ok, f"{ch[-1]} matches calls of {norm(node.args[0])}" + ("" if ok else f": expected one of {sorted(PRIM_ALIASES[ch[-1]])}; the pattern would treat another primitive's argument as a shape/permutation"))
    if n < 20:
        raise AnalysisError(f"only {n} pattern instantiations found in frontend/impl")


def identity_skipper(p):
    """the function the optimiser uses to look through identity nodes: the callee that InlineGraph applies to the
    graph's output (found by role, so renaming / moving it is fine)"""
    ig = p.cls("InlineGraph", "tracer.optimizer.graph")
    call = common.specialised(p, ig, "__call__")
    x = call.params[1]
    for n in walk_no_nested(call.node):
        if isinstance(n, ast.Call) and n.args and norm(n.args[0]) == f"{x}.output":
            r = resolve_callee(p, n, call.module)
            if r and r[0] == "func":
                return r[1]
    raise AnalysisError("unrecognised idiom: InlineGraph.__call__ does not pass x.output through an identity-skipping helper")


def r8(p, rep):
    rep.rule("C05.R8", "only identity casts are looked through when matching", "T-EFF (IR classes tested by the identity skipper)", floor=1)
    f = identity_skipper(p)
    base, subs = ir.application_classes(p)
    tested = []
    for n in common.nodes_of(common.with_helpers(p, f)):
        if isinstance(n, ast.Call) and isinstance(n.func, ast.Name) and n.func.id == "isinstance" and len(n.args) == 2:
            t = n.args[1]
            items = []

            def flat(e):
                if isinstance(e, ast.Tuple):
                    for y in e.elts:
                        flat(y)
                elif isinstance(e, ast.BinOp) and isinstance(e.op, ast.BitOr):
                    flat(e.left)
                    flat(e.right)
                else:
                    items.append(e)

            flat(t)
            for it in items:
                r = p.resolve_expr(f.module, it, f.node)
                if r and r[0] == "class" and (r[1] in subs or r[1] is base):
                    tested.append(r[1].name)
    if not tested:
        raise AnalysisError(f"unrecognised idiom: {f.qualname} tests no IR node class")
    ok = set(tested) <= {"Cast"}
    rep.add("C05.R8", "optimizer:identity-skipper:skipped-classes", f.loc, ok, f"{f.name} looks through {sorted(set(tested))}" + ("" if ok else ": nodes with an effect (run-time asserts on adapter / factory outputs, calls) are treated as identities, so InlineGraph / merge rewrites drop them"))


def run(p, rep, tier):
    r1(p, rep)
    r2(p, rep)
    r3_r4(p, rep)
    r5(p, rep)
    r6(p, rep)
    r7(p, rep)
    r8(p, rep)
    rep.rule("C04.R4", "the IR node classes, the emitter, the inputs lists and _tracer_transform agree", "T-EXH + T-SIB", floor=40)
    c04.r4(p, rep)
    rep.info["undecided"] = "value preservation for arbitrary graphs (e.g. merging through a value that has a second consumer)"
