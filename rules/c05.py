"""C05 - graph optimisation never changes what an operation computes, and terminates.

Decided clauses:
 R1 [S] merged transpose: new permutation = inner permutation indexed by the outer one
 R2 [S] merged reshape keeps the outer shape and the innermost operand
 R3 node-dropping rewrites are guarded by an identity test (shape / permutation / signature equality)
 R4 every firing rewrite returns a strict sub-term or one call over sub-terms (decreasing measure => termination)
 R5 un-matched values are rebuilt completely (IR nodes: C04.R4d; python value kinds: every component)
 R6 fixed-point loop: fresh memo per pass, leave only when nothing changed, changed-flag and memo set before a fired return
 R7 every backend instantiates the patterns with its own matching primitives
 R8 only identity casts are looked through when matching (asserts and calls are never skipped)
"""

from __future__ import annotations

import ast

from sa.cfg import CFG
from sa.core import AnalysisError, attr_chain, enclosing, norm, parents, resolve_callee, src, walk_no_nested

from . import backends, c04, common, ir


def patterns(p):
    mods = (p.module("tracer.optimizer.classical"), p.module("tracer.optimizer.graph"))
    out = [c for c in p.classes.values() if c.module in mods and "__call__" in c.methods]
    if len(out) < 6:
        raise AnalysisError(f"anchor vanished: expected >= 6 optimizer patterns, found {[c.name for c in out]}")
    return out


def _resolve_local(f, e, depth=0):
    """follow single assignments of plain names: returns the defining expression text chain root"""
    seen = []
    while isinstance(e, ast.Name) and depth < 6:
        defs = [n.value for n in walk_no_nested(f.node) if isinstance(n, ast.Assign) and any(isinstance(t, ast.Name) and t.id == e.id for t in n.targets)]
        if not defs:
            break
        seen.append(e.id)
        # last definition before use is what matters in straight-line pattern code; take the one nearest above
        e = defs[-1]
        depth += 1
    return e


def _role(f, e):
    """'outer' if the value is read from the matched node x (x.origin.args[k]); 'inner' if read from a
    node reached through x's operand (input.origin.args[k] with input derived from x.origin.args[0])."""
    x = f.params[1] if len(f.params) > 1 else None
    text = norm(e)
    if isinstance(e, ast.Name):
        # a name with several definitions (input = x.origin.args[0]; input = _skip_id(input)) : use all
        defs = [n.value for n in walk_no_nested(f.node) if isinstance(n, ast.Assign) and any(isinstance(t, ast.Name) and t.id == e.id for t in n.targets)]
        roles = {_role(f, d) for d in defs}
        roles.discard(None)
        return roles.pop() if len(roles) == 1 else None
    ch = attr_chain(e.value) if isinstance(e, ast.Subscript) else attr_chain(e)
    if isinstance(e, ast.Subscript) and ch and "origin" in ch:
        root = ch[0]
        if root == x:
            return "outer"
        # root is a local derived from x.origin.args[0]
        rdefs = [n.value for n in walk_no_nested(f.node) if isinstance(n, ast.Assign) and any(isinstance(t, ast.Name) and t.id == root for t in n.targets)]
        if any(norm(d).startswith(f"{x}.origin.args[0]") or "_skip_id(" in norm(d) for d in rdefs):
            return "inner"
    if isinstance(e, ast.Call) and isinstance(e.func, ast.Name) and e.func.id in ("tuple", "list") and e.args:
        return _role(f, e.args[0])
    return None


def r1(p, rep):
    rep.rule("C05.R1", "merged transpose = inner permutation indexed by the outer permutation", "T-DER [S]", floor=1)
    f = p.func("SkipTranspose.__call__", "tracer.optimizer.classical")
    comps = []
    for n in walk_no_nested(f.node):
        if isinstance(n, (ast.GeneratorExp, ast.ListComp)) and isinstance(n.elt, ast.Subscript) and len(n.generators) == 1 and isinstance(n.generators[0].target, ast.Name):
            if isinstance(n.elt.slice, ast.Name) and n.elt.slice.id == n.generators[0].target.id:
                comps.append(n)
    # numpy style: np.asarray(inner)[list(outer)] / np.take(inner, outer)
    takes = [n for n in walk_no_nested(f.node) if isinstance(n, ast.Call) and norm(n.func).endswith(".take") and len(n.args) == 2]
    if not comps and not takes:
        raise AnalysisError("unrecognised idiom: SkipTranspose.__call__ does not compose permutations in a recognised form (inner[p] for p in outer / np.take(inner, outer))")
    for c in comps:
        indexed, iterated = c.elt.value, c.generators[0].iter
        ri, ro = _role(f, indexed), _role(f, iterated)
        ok = ri == "inner" and ro == "outer"
        rep.add(
            "C05.R1",
            f"{f.qualname}:compose",
            f"{f.module.rel}:{c.lineno}",
            ok,
            f"`{norm(c)}`: indexes the {ri} permutation by the elements of the {ro} one" + ("" if ok else " - transpose(transpose(x, inner), outer) equals transpose(x, [inner[p] for p in outer]); the reverse order is only right when the permutations commute"),
        )
    for c in takes:
        ri, ro = _role(f, c.args[0]), _role(f, c.args[1])
        rep.add("C05.R1", f"{f.qualname}:compose", f"{f.module.rel}:{c.lineno}", ri == "inner" and ro == "outer", f"`{norm(c)}`: takes from the {ri} permutation at the {ro} one")


def _firing_returns(f):
    out = []
    for n in walk_no_nested(f.node):
        if isinstance(n, ast.Return) and isinstance(n.value, ast.Tuple) and len(n.value.elts) == 2 and isinstance(n.value.elts[0], ast.Constant) and n.value.elts[0].value is True:
            out.append(n)
    return out


def r2(p, rep):
    rep.rule("C05.R2", "merged reshape keeps the outer shape and the innermost operand", "T-DER [S]", floor=1)
    f = p.func("SkipReshape.__call__", "tracer.optimizer.classical")
    merges = [r for r in _firing_returns(f) if isinstance(r.value.elts[1], ast.Call) and norm(r.value.elts[1].func).endswith("python.call")]
    if not merges:
        raise AnalysisError("unrecognised idiom: SkipReshape has no merge rewrite")
    x = f.params[1]
    for r in merges:
        call = r.value.elts[1]
        fn = call.args[0] if call.args else None
        lst = call.args[1] if len(call.args) > 1 else None
        ok_fn = fn is not None and norm(fn) == f"transform({x}.origin.function)"
        ok_args = isinstance(lst, ast.List) and len(lst.elts) == 2
        why = ""
        if ok_args:
            a0, a1 = lst.elts
            inner_operand = isinstance(a0, ast.Call) and norm(a0.func) == "transform" and _role(f, _resolve_local(f, a0.args[0])) == "inner"
            outer_shape = _role(f, a1) == "outer"
            ok_args = inner_operand and outer_shape
            why = f"operand `{norm(a0)}` ({'inner' if inner_operand else '?'}), shape `{norm(a1)}` ({'outer' if outer_shape else 'NOT the outer shape'})"
        rep.add("C05.R2", f"{f.qualname}:merge", f"{f.module.rel}:{r.lineno}", ok_fn and ok_args, why or "merge call not in the form call(transform(x.origin.function), [transform(innermost), outer_shape])")


IDENTITY_TESTS = ("tuple(shape) == tuple(input.shape)", "tuple(perm) == tuple(range(input.ndim))", "len(tensors) == 1", "input_signature == output_signature")


def r3_r4(p, rep):
    rep.rule("C05.R3", "node-dropping rewrites are guarded by an identity test", "T-DOM", floor=5)
    rep.rule("C05.R4", "firing rewrites return a strict sub-term or one call over sub-terms", "decreasing measure", floor=8)
    n_drop = 0
    for c in patterns(p):
        f = c.methods["__call__"]
        cfg = CFG(f.node)
        x = f.params[1]
        tr = f.params[2] if len(f.params) > 2 else "transform"
        for r in _firing_returns(f):
            e = r.value.elts[1]
            site = f"{f.module.rel}:{r.lineno}"
            key = f"{f.qualname}:return({norm(e)[:40]})"
            facts = cfg.guards(cfg.node_for(r))
            # R4: shape of the replacement
            if isinstance(e, ast.Call) and isinstance(e.func, ast.Name) and e.func.id == tr and len(e.args) == 1:
                v = _resolve_local(f, e.args[0])
                sub = _is_subterm(f, e.args[0], x)
                rep.add("C05.R4", key, site, sub, f"replacement transform({norm(e.args[0])}) is a strict sub-term of {x}" if sub else f"`{norm(e.args[0])}` is not derived from a strict sub-term of the matched node: the rewrite need not make the graph smaller")
                # R3: dropping a node needs an equality guard
                n_drop += 1
                eqs = [t for t, pol in facts if pol and isinstance(t, ast.Compare) and len(t.ops) == 1 and isinstance(t.ops[0], ast.Eq)]
                neqs = [t for t, pol in facts if pol is False and isinstance(t, ast.Compare) and len(t.ops) == 1 and isinstance(t.ops[0], ast.NotEq)]
                guards = eqs + neqs
                good = [g for g in guards if _identity_guard(f, g, x)]
                # InlineGraph: guarded by id-list inequality returning False before
                if c.name == "InlineGraph":
                    pre = [t for t, pol in facts if pol is False and isinstance(t, ast.Compare) and isinstance(t.ops[0], ast.NotEq) and "id(i)" in norm(t)]
                    dep = [t for t, pol in facts if pol is False and "depends_on" in norm(t)]
                    kw = [t for t, pol in facts if pol and "kwargs" in norm(t) and "== 0" in norm(t)]
                    ok = bool(pre) and bool(dep) and bool(kw)
                    rep.add("C05.R3", key, site, ok, "inlined only when the call takes exactly the graph inputs (identity), no keywords, and the function does not depend on them" if ok else "the wrapper graph is inlined without all of: same inputs by identity, no keywords, function independent of the inputs")
                else:
                    rep.add("C05.R3", key, site, bool(good), f"dropped only under `{norm(good[0])}`" if good else f"the node is dropped without an equality test between its parameter and its operand's shape/rank/signature (guards: {[norm(t) for t, _ in facts][-3:]})")
            elif isinstance(e, ast.Call) and norm(e.func).endswith("python.call"):
                # one constructor call over sub-terms two levels down
                subs = [a for a in ast.walk(e) if isinstance(a, ast.Call) and isinstance(a.func, ast.Name) and a.func.id == tr]
                ok = all(_is_subterm(f, s.args[0], x) for s in subs) and bool(subs)
                deep = any("input_of_input" in norm(s) or _depth2(f, s.args[0], x) for s in subs)
                rep.add("C05.R4", key, site, ok and deep, "two nested calls are replaced by one call over the innermost operand" if ok and deep else "the merge does not remove a node (operand is not two levels down)")
            else:
                rep.add("C05.R4", key, site, False, f"replacement `{norm(e)[:60]}` is neither transform(<sub-term>) nor one call over sub-terms")
    if n_drop < 5:
        raise AnalysisError(f"only {n_drop} node-dropping rewrites found")


def _is_subterm(f, e, x):
    """e derives from x.origin.<...> / x.output / x.inputs through locals, subscripts and _skip_id"""
    e0 = e
    for _ in range(8):
        t = norm(e)
        if t.startswith(f"{x}.origin.") or t.startswith(f"{x}.output") or t.startswith(f"{x}.inputs"):
            return True
        if isinstance(e, ast.Name):
            defs = [n.value for n in walk_no_nested(f.node) if isinstance(n, ast.Assign) and any(isinstance(tg, ast.Name) and tg.id == e.id for tg in n.targets)]
            if not defs:
                return False
            if all(_is_subterm(f, d, x) if not (isinstance(d, ast.Call) and norm(d.func) == "_skip_id" and isinstance(d.args[0], ast.Name) and d.args[0].id == e.id) else True for d in defs):
                return True
            return False
        if isinstance(e, ast.Subscript):
            e = e.value
            continue
        if isinstance(e, ast.Attribute):
            e = e.value
            continue
        if isinstance(e, ast.Call) and norm(e.func) == "_skip_id" and e.args:
            e = e.args[0]
            continue
        return False
    return False


def _depth2(f, e, x):
    t = norm(_resolve_local(f, e))
    return ".origin.args[0]" in t and not t.startswith(f"{x}.")


def _identity_guard(f, g, x):
    """equality between something derived from the node's own parameter and something derived from its operand"""
    l, r = norm(g.left), norm(g.comparators[0])
    both = l + " " + r
    if "len(" in both and (l == "1" or r == "1"):
        return True
    if "signature" in l and "signature" in r:
        return True
    return (".shape" in both or ".ndim" in both) and ("shape" in both or "perm" in both)


def r5(p, rep):
    rep.rule("C05.R5", "values that no pattern matched are rebuilt completely", "T-SIB (rebuild completeness)", floor=5)
    f = p.func("Optimizer._optimize", "tracer.optimizer.optimizer")
    x = f.params[1]
    found = set()
    for n in walk_no_nested(f.node):
        if not isinstance(n, ast.Return):
            continue
        v = n.value
        site = f"{f.module.rel}:{n.lineno}"
        if isinstance(v, ast.Call) and isinstance(v.func, ast.Name) and v.func.id == "slice":
            found.add("slice")
            parts = [norm(a) for a in v.args]
            need = [f"{x}.start", f"{x}.stop", f"{x}.step"]
            ok = len(v.args) == 3 and all(need[i] in parts[i] for i in range(3))
            rep.add("C05.R5", f"{f.qualname}:rebuild:slice", site, ok, f"slice rebuilt from {parts}" + ("" if ok else f": a component of {need} is dropped, e.g. x[::-1] silently becomes x[:]"))
        elif isinstance(v, ast.Call) and norm(v.func).endswith("Graph"):
            found.add("Graph")
            ok = len(v.args) + len(v.keywords) >= 3 and f"{x}.name" in norm(v)
            rep.add("C05.R5", f"{f.qualname}:rebuild:Graph", site, ok, f"Graph rebuilt as {norm(v)[:70]}")
        elif isinstance(v, (ast.ListComp, ast.DictComp)) or (isinstance(v, ast.Call) and isinstance(v.func, ast.Name) and v.func.id == "tuple"):
            kind = "dict" if isinstance(v, ast.DictComp) else ("list" if isinstance(v, ast.ListComp) else "tuple")
            found.add(kind)
            comp = v if not isinstance(v, ast.Call) else v.args[0]
            gens = comp.generators
            ok = len(gens) == 1 and not gens[0].ifs and norm(gens[0].iter).startswith(x)
            if kind == "dict":
                ok = ok and "_optimize(k)" in norm(v) and "_optimize(v)" in norm(v)
            rep.add("C05.R5", f"{f.qualname}:rebuild:{kind}", site, ok, f"{kind} rebuilt element-wise without filter" if ok else f"{kind} rebuild drops or filters elements: {norm(v)[:70]}")
    for need in ("slice", "Graph", "list", "tuple", "dict"):
        if need not in found:
            raise AnalysisError(f"unrecognised idiom: Optimizer._optimize has no rebuild for {need}")
    # tracer branch: delegates to _tracer_transform (checked per class by C04.R4d)
    ok = any(isinstance(n, ast.Call) and isinstance(n.func, ast.Attribute) and n.func.attr == "_tracer_transform" for n in walk_no_nested(f.node))
    rep.add("C05.R5", f"{f.qualname}:rebuild:tracer", f.loc, ok, "tracers are rebuilt by origin._tracer_transform(self._optimize) (completeness per node class: C04.R4)")


def r6(p, rep):
    rep.rule("C05.R6", "fixed-point loop with a fresh memo per pass", "T-DOM", floor=4)
    f = p.func("optimize", "tracer.optimizer.optimizer")
    loops = [n for n in walk_no_nested(f.node) if isinstance(n, ast.While)]
    if len(loops) != 1:
        raise AnalysisError("unrecognised idiom: optimize() has no single while loop")
    w = loops[0]
    ctor = [n for n in ast.walk(w) if isinstance(n, ast.Call) and (lambda r: r and r[0] == "class" and r[1].name == "Optimizer")(resolve_callee(p, n, f.module))]
    ctor_outside = [n for n in walk_no_nested(f.node) if isinstance(n, ast.Call) and (lambda r: r and r[0] == "class" and r[1].name == "Optimizer")(resolve_callee(p, n, f.module)) and not any(par is w for par in parents(n))]
    rep.add("C05.R6", f"{f.qualname}:fresh-memo", f"{f.module.rel}:{w.lineno}", bool(ctor) and not ctor_outside, "Optimizer(...) (memo + changed flag) is constructed inside the loop, once per pass" if ctor and not ctor_outside else "the Optimizer (memo of rewritten nodes, changed flag) is reused across passes: stale entries map old nodes to results of an earlier pass / the loop never terminates or stops early")
    # leaves the loop only when nothing changed
    cfg = CFG(f.node)
    breaks = [n for n in ast.walk(w) if isinstance(n, ast.Break)]
    ok = False
    if isinstance(w.test, ast.Constant) and w.test.value is True:
        ok = bool(breaks) and all(any(norm(t).endswith(".changed") and pol is False for t, pol in cfg.guards(cfg.node_for(b))) for b in breaks)
    else:
        ok = "changed" in norm(w.test)
    rep.add("C05.R6", f"{f.qualname}:exit-condition", f"{f.module.rel}:{w.lineno}", ok, "the loop is left only when a whole pass fired no pattern" if ok else "the loop can be left although the last pass still changed the graph (no fixed point)")
    g = p.func("Optimizer._optimize", "tracer.optimizer.optimizer")
    cfgg = CFG(g.node)
    fired = [n for n in walk_no_nested(g.node) if isinstance(n, ast.Return) and norm(n.value) == "newobj"]
    if not fired:
        raise AnalysisError("unrecognised idiom: no `return newobj` in Optimizer._optimize")
    for r in fired:
        rn = cfgg.node_for(r)
        setc = [n for n in walk_no_nested(g.node) if isinstance(n, ast.Assign) and norm(n.targets[0]).endswith(".changed") and isinstance(n.value, ast.Constant) and n.value.value is True]
        memo = [n for n in walk_no_nested(g.node) if isinstance(n, ast.Expr) and "._set" in norm(n.value)]
        ok1 = any(cfgg.dominates(cfgg.node_for(s), rn) for s in setc)
        ok2 = any(cfgg.dominates(cfgg.node_for(m), rn) for m in memo)
        rep.add("C05.R6", f"{g.qualname}:changed-before-return", f"{g.module.rel}:{r.lineno}", ok1, "self.changed = True dominates the fired return" if ok1 else "a pattern can fire without setting the changed flag: the fixed-point loop stops one pass early")
        rep.add("C05.R6", f"{g.qualname}:memo-before-return", f"{g.module.rel}:{r.lineno}", ok2, "the old->new memo is updated before the fired return" if ok2 else "the rewritten node is not memoised: a shared sub-graph is rewritten into several distinct copies")
    # memo lookup comes first
    first = g.node.body[0]
    ok = isinstance(first, ast.If) and "id_to_newobj" in norm(first.test)
    rep.add("C05.R6", f"{g.qualname}:memo-lookup-first", g.loc, ok, "memo hit is returned before any pattern is tried (shared nodes stay shared)")


PRIM_ALIASES = {
    "SkipReshape": {"reshape"},
    "SkipTranspose": {"transpose", "permute"},
    "SkipBroadcastTo": {"broadcast_to", "expand"},  # tinygrad names broadcast_to `expand`
    "SkipConcatenate": {"concatenate", "cat", "concat"},
}


def r7(p, rep):
    rep.rule("C05.R7", "backends instantiate the patterns with their own matching primitives", "T-TAB", floor=20)
    n = 0
    for fw, m in backends.impl_modules(p).items():
        for node in ast.walk(m.tree):
            if isinstance(node, ast.Call):
                ch = attr_chain(node.func)
                if ch and ch[-1] in PRIM_ALIASES and node.args:
                    n += 1
                    prim = attr_chain(node.args[0])
                    ok = bool(prim) and prim[-1] in PRIM_ALIASES[ch[-1]]
                    f = p.func_containing(node)
                    rep.add("C05.R7", f"{f.qualname if f else m.name}:{ch[-1]}({norm(node.args[0])})", f"{m.rel}:{node.lineno}", ok, f"{ch[-1]} matches calls of {norm(node.args[0])}" + ("" if ok else f": expected one of {sorted(PRIM_ALIASES[ch[-1]])}; the pattern would treat another primitive's argument as a shape/permutation"))
    if n < 20:
        raise AnalysisError(f"only {n} pattern instantiations found in frontend/impl")


def r8(p, rep):
    rep.rule("C05.R8", "only identity casts are looked through when matching", "T-EFF (classes tested by _skip_id)", floor=1)
    f = p.func("_skip_id", "tracer.optimizer._util")
    tested = []
    for n in walk_no_nested(f.node):
        if isinstance(n, ast.Call) and isinstance(n.func, ast.Name) and n.func.id == "isinstance" and len(n.args) == 2 and norm(n.args[0]) == "origin":
            t = n.args[1]
            items = t.elts if isinstance(t, ast.Tuple) else ([t.left, t.right] if isinstance(t, ast.BinOp) else [t])
            flat = []
            for it in items:
                if isinstance(it, ast.BinOp):
                    flat += [it.left, it.right]
                else:
                    flat.append(it)
            for it in flat:
                r = p.resolve_expr(f.module, it, f.node)
                tested.append(r[1].name if r and r[0] == "class" else norm(it))
    if not tested:
        raise AnalysisError("unrecognised idiom: _skip_id tests no origin class")
    ok = set(tested) <= {"Cast"}
    rep.add("C05.R8", f"{f.qualname}:skipped-classes", f.loc, ok, f"_skip_id looks through {sorted(set(tested))}" + ("" if ok else ": nodes with an effect (run-time asserts on adapter / factory outputs, calls) are treated as identities, so InlineGraph / merge rewrites drop them"))


def run(p, rep, tier):
    r1(p, rep)
    r2(p, rep)
    r3_r4(p, rep)
    r5(p, rep)
    r6(p, rep)
    r7(p, rep)
    r8(p, rep)
    rep.rule("C04.R4", "the IR node classes, the emitter, the inputs lists and _tracer_transform agree", "T-EXH + T-SIB", floor=40)
    c04.r4(p, rep)
    rep.info["undecided"] = "value preservation for arbitrary graphs (e.g. merging through a value that has a second consumer)"
