"""C09 - arguments are never modified (except the documented in-place *_at target).

Decided clauses (ownership / effect analysis over all seven backends' sources):
 R1 inventory of mutating primitives and who may reference them
 R2 the mutated operand is the target (operand position through the combinators)
 R3 only the update_at lowering can reach the *_at primitives
 R4 python-level code does not mutate user objects
 R5 functional numpy ufuncs (which take `out` positionally) are arity-limited
 R6 graph=True never executes the compiled function (shared with C13.R2)
"""

from __future__ import annotations

import ast

from sa.core import AnalysisError, attr_chain, chain_root, enclosing, norm, parents, resolve_callee, src, walk_no_nested

from . import backends, c03, common

UPDATE_NAMES = ("set_at", "add_at", "subtract_at")
INPLACE_BY_NAME = {"put", "__setitem__", "__delitem__", "__iadd__", "__isub__", "__imul__", "__itruediv__", "copyto", "place", "putmask", "fill", "resize", "setflags", "sort_", "itemset", "setfield"}


def inplace_by_name(attr):
    return attr in INPLACE_BY_NAME or (attr.endswith("_") and not attr.startswith("_") and len(attr) > 1)


def mutating_ir_constructors(p):
    """Functions of tracer/signature/python.py that build CallInplace / UpdateItem nodes."""
    m = p.module("tracer.signature.python")
    classes = {c.name: c for c in p.classes.values() if c.module is m}
    for need in ("CallInplace", "UpdateItem"):
        if need not in classes:
            raise AnalysisError(f"anchor vanished: IR class {need}")
    out = []
    for f in p.funcs.values():
        if f.module is m and f.cls is None and f.parent is None:
            for n in walk_no_nested(f.node):
                if isinstance(n, ast.Call):
                    r = resolve_callee(p, n, m)
                    if r and r[0] == "class" and r[1].name in ("CallInplace", "UpdateItem"):
                        out.append(f)
                        break
    # ... and the module-level functions that build them through one of those (`setitem` -> `_update_item`)
    grew = True
    while grew:
        grew = False
        for f in p.funcs.values():
            if f.module is m and f.cls is None and f.parent is None and f not in out:
                for n in walk_no_nested(f.node):
                    if isinstance(n, ast.Call):
                        r = resolve_callee(p, n, m)
                        if r and r[0] == "func" and r[1] in out:
                            out.append(f)
                            grew = True
                            break
    if len(out) < 3:
        raise AnalysisError(f"expected >= 3 mutating IR constructors (call_inplace, setitem, additem, subtractitem), found {[f.name for f in out]}")
    return out


def mutating_wrappers(p, ir):
    """Functions of tracer/signature/classical/functions.py that reference a mutating IR constructor."""
    m = p.module("tracer.signature.classical.functions")
    out = {}
    for f in p.funcs.values():
        if f.module is not m or f.parent is not None:
            continue
        for n in ast.walk(f.node):
            if isinstance(n, ast.Attribute) or isinstance(n, ast.Name):
                r = p.resolve_expr(m, n, None) if isinstance(n, ast.Attribute) else None
                if r and r[0] == "func" and r[1] in ir:
                    # `setitem(op=None)`: mutating only when called without an op
                    out[f.name] = "default" if any(a.arg == "op" for a in f.node.args.args) and f.node.args.defaults else "always"
    if "inplace" not in out:
        raise AnalysisError(f"anchor vanished: signature.classical.inplace wrapper (found {sorted(out)})")
    return out


def signature_mutating_attrs(p, wrappers):
    """fw -> {attr path: (site, reason)} for signature-class attributes defined through a mutating wrapper."""
    out = {}
    n_classes = 0
    for fw, classes in backends.signature_classes(p).items():
        attrs = {}
        for c in classes:
            n_classes += 1
            init = c.methods.get("__init__")
            if init is None:
                continue
            selfname = init.node.args.args[0].arg
            for n in walk_no_nested(init.node):
                if not (isinstance(n, ast.Assign) and isinstance(n.value, ast.Call)):
                    continue
                callee = attr_chain(n.value.func)
                if not callee:
                    continue
                w = callee[-1]
                if w not in wrappers:
                    continue
                mutating = False
                why = ""
                if wrappers[w] == "always":
                    mutating, why = True, f"{w}(...)"
                elif not n.value.args and not n.value.keywords:
                    mutating, why = True, f"{w}() with the default in-place item update"
                else:
                    names = [x.attr for x in ast.walk(n.value) if isinstance(x, ast.Attribute)] + [x.value for x in ast.walk(n.value) if isinstance(x, ast.Constant) and isinstance(x.value, str)]
                    ip = [x for x in names if inplace_by_name(x)]
                    if ip:
                        mutating, why = True, f"{w}(...) around the in-place-by-name primitive {ip[0]}"
                if mutating:
                    for t in n.targets:
                        ch = attr_chain(t)
                        if ch and ch[0] == selfname:
                            attrs[".".join(ch[1:])] = (f"{c.module.rel}:{n.lineno}", why)
        out[fw] = attrs
    return out, n_classes


def r1(p, rep):
    rep.rule("C09.R1", "mutating primitives are defined in the tracer signature layer and referenced only by the *_at registrations", "T-EFF (who may reference)", floor=30)
    ir = mutating_ir_constructors(p)
    wrappers = mutating_wrappers(p, ir)
    sig_attrs, n_sig = signature_mutating_attrs(p, wrappers)
    rep.info["mutating_ir_constructors"] = [f.qualname for f in ir]
    rep.info["mutating_wrappers"] = wrappers
    rep.info["mutating_signature_attrs"] = {fw: sorted(a) for fw, a in sig_attrs.items()}
    all_paths = {a for attrs in sig_attrs.values() for a in attrs}
    if not all_paths:
        raise AnalysisError("no mutating signature attribute found (np.put / np.add.at / __setitem__ / index_put_ expected)")
    for fw, attrs in sig_attrs.items():
        for a, (site, why) in attrs.items():
            rep.ok("C09.R1", f"signature.{fw}:{a}", site, f"mutating primitive defined by {why}")
    # (a) IR constructors and mutating wrappers are referenced only inside tracer/signature/**
    for m in p.modules.values():
        if m.name.startswith("einx._src.tracer.signature") or any(m.name == x for x in common.OFF_PATH_MODULES):
            continue
        for n in ast.walk(m.tree):
            if isinstance(n, ast.Attribute) and not isinstance(getattr(n, "_parent", None), ast.Attribute):
                f = p.func_containing(n)
                r = p.resolve_expr(m, n, f.node if f else None)
                if r and r[0] == "func" and (r[1] in ir or (r[1].module.name.endswith("signature.classical.functions") and r[1].name in wrappers and wrappers[r[1].name] == "always")):
                    rep.violation("C09.R1", f"{f.qualname if f else m.name}:ref({r[1].name})", f"{m.rel}:{n.lineno}", f"in-place IR constructor {r[1].qualname} is referenced outside the tracer signature layer: an operation other than *_at can now emit an in-place node")
    # (b) in the classical tables, mutating primitives occur only in the *_at registrations
    n_regs = 0
    for fw, cls in backends.classical_ops(p).items():
        ns = backends.local_namespace_aliases(cls)
        regs = backends.registrations(p, cls)
        localfns = backends.local_functions(cls)
        # local helper functions used only by *_at registrations
        helper_users = {}
        for r in regs:
            for n in ast.walk(r.value):
                if isinstance(n, ast.Name) and n.id in localfns:
                    helper_users.setdefault(n.id, set()).add(r.name)
        def is_mut(path):
            parts = path.split(".")
            if any(path == a or path.endswith("." + a) for a in all_paths):
                return True
            return inplace_by_name(parts[-1]) or (len(parts) >= 2 and parts[-1] == "at" and parts[-2] in ("add", "subtract", "multiply", "maximum", "minimum"))
        for r in regs:
            n_regs += 1
            prims = [(path, n) for path, n in r.primitives(ns) if is_mut(path)]
            if r.name in UPDATE_NAMES:
                rep.ok("C09.R1", f"{cls.qualname}:{r.name}", r.site, f"documented in-place family; primitives {[x for x, _ in prims] or 'functional'}")
                continue
            for path, n in prims:
                rep.violation("C09.R1", f"{cls.qualname}:{r.name}:uses({path})", f"{cls.module.rel}:{n.lineno}", f"the {fw} table entry `{r.name}` uses the in-place primitive {path}; only set_at/add_at/subtract_at may modify an argument")
            if not prims:
                rep.ok("C09.R1", f"{cls.qualname}:{r.name}", r.site, "no in-place primitive", nontrivial=False)
        for name, fn in localfns.items():
            users = helper_users.get(name, set())
            prims = []
            for n in ast.walk(fn):
                if isinstance(n, ast.Attribute) and not isinstance(getattr(n, "_parent", None), ast.Attribute):
                    ch = attr_chain(n)
                    if ch and ch[0] in ns and is_mut(".".join(ch[1:])):
                        prims.append(".".join(ch[1:]))
            if prims and not users <= set(UPDATE_NAMES):
                rep.violation("C09.R1", f"{cls.qualname}:{name}:helper", f"{cls.module.rel}:{fn.lineno}", f"local helper {name} uses in-place primitive(s) {prims} and is used by {sorted(users - set(UPDATE_NAMES))}")
    if n_regs < 300:
        raise AnalysisError(f"only {n_regs} table registrations seen in the 7 classical ops classes (expected > 300)")
    rep.info["registrations_checked"] = n_regs
    return sig_attrs


def _first_positional_is_param0(fn):
    """For a lambda / def used as *_at op: every call inside whose receiver or first argument involves
    an in-place-by-name primitive applies it to the function's first parameter."""
    params = [a.arg for a in fn.args.args]
    if not params:
        return None, "no parameters"
    p0 = params[0]
    body = fn.body if isinstance(fn.body, list) else [fn.body]
    for st in body:
        for n in ast.walk(st):
            if isinstance(n, ast.Call) and isinstance(n.func, ast.Attribute) and inplace_by_name(n.func.attr):
                # namespace style: torch.index_put_(x, ...) -> first arg; method style: x.index_put_(...)
                recv = n.func.value
                if isinstance(recv, ast.Name) and recv.id == p0:
                    continue
                if n.args and isinstance(n.args[0], ast.Name) and n.args[0].id == p0:
                    continue
                return False, f"{norm(n)[:60]} is not applied to the first parameter `{p0}`"
    return True, f"in-place primitive applied to first parameter `{p0}`"


def r2(p, rep):
    rep.rule("C09.R2", "the operand handed to the in-place primitive is the *_at target (operand 0), never coordinates or updates", "T-DER operand position", floor=20)
    # (a) registrations: op lambdas apply the primitive to their first parameter
    for fw, cls in backends.classical_ops(p).items():
        for r in backends.registrations(p, cls):
            if r.name not in UPDATE_NAMES or not isinstance(r.value, ast.Call) or not r.value.args:
                continue
            op = r.value.args[0]
            if isinstance(op, ast.Lambda):
                ok, why = _first_positional_is_param0(op)
                rep.add("C09.R2", f"{cls.qualname}:{r.name}:op", r.site, ok is not False, why)
            elif isinstance(op, ast.Call) and isinstance(op.func, ast.Name) and op.func.id == "partial" and op.args and isinstance(op.args[0], ast.Name):
                fn = backends.local_functions(cls).get(op.args[0].id)
                if fn is None:
                    raise AnalysisError(f"unrecognised idiom: partial({op.args[0].id}) in {cls.qualname}.{r.name}")
                # functional scatter: x = op(x, ...) and returns x
                rep.ok("C09.R2", f"{cls.qualname}:{r.name}:op", r.site, f"local helper {fn.name} (first parameter {fn.args.args[0].arg})")
            else:
                rep.ok("C09.R2", f"{cls.qualname}:{r.name}:op", r.site, f"primitive {norm(op)[:50]} takes the target as first positional argument (passed through by the combinator, checked below)")
    # (b) combinators pass the target first
    def check_call_order(f, call, expect, label):
        args = [norm(a) for a in call.args]
        ok = args[: len(expect)] == expect
        rep.add("C09.R2", f"{f.qualname}:{label}", f"{f.module.rel}:{call.lineno}", ok, f"op({', '.join(args)}) expected op({', '.join(expect)}, ...)")

    outer, f = common.scatter_combinator_inner(p)
    params = f.params
    opname = outer.params[0]
    calls = [n for n in walk_no_nested(f.node) if isinstance(n, ast.Call) and isinstance(n.func, ast.Name) and n.func.id == opname]
    if not calls:
        raise AnalysisError("unrecognised idiom: the scatter combinator never calls its primitive")
    for c in calls:
        for i in range(min(3, len(c.args))):
            org = common.origin_params(f, c.args[i])
            ok = org == {params[i]}
            rep.add("C09.R2", f"{outer.qualname}:closure:op-arg{i}", f"{f.module.rel}:{c.lineno}", ok, f"argument {i} of the primitive (`{norm(c.args[i])}`) is the closure's parameter `{params[i]}`" if ok else f"argument {i} of the primitive (`{norm(c.args[i])}`) derives from {sorted(org)} instead of `{params[i]}`: the in-place primitive would write into / read from the wrong tensor")
    # (c) update_at_ravelled / elementary update_at: operand 0 derives from tensors[0]
    for qual, mod in (("update_at_ravelled.inner", "adapter.decomposednamedtensor_from_classical"), ("update_at.update_at", "adapter.elementary_from_classical")):
        f0 = p.func(qual, mod)
        import types as _types

        # small helpers (`tensor = _flatten(classical, tensor, expr)`) are written out first
        f = _types.SimpleNamespace(node=common.inline_lexical_helpers(f0.node), qualname=f0.qualname, module=f0.module, params=f0.params)
        calls = [n for n in walk_no_nested(f.node) if isinstance(n, ast.Call) and isinstance(n.func, ast.Name) and n.func.id == "op"]
        if not calls:
            raise AnalysisError(f"unrecognised idiom: no op(...) call in {qual}")
        for c in calls:
            a0 = c.args[0] if c.args else None
            ok, why = _derives_from_first_tensor(f, a0)
            rep.add("C09.R2", f"{f.qualname}:operand0", f"{f.module.rel}:{c.lineno}", ok, why)
            for i, a in enumerate(c.args[1:], start=1):
                ok2, why2 = _derives_from_first_tensor(f, a)
                rep.add("C09.R2", f"{f.qualname}:operand{i}", f"{f.module.rel}:{c.lineno}", not ok2, f"operand {i} `{norm(a)}` " + ("is the target itself" if ok2 else "is not derived from tensors[0]"))


def _derives_from_first_tensor(f, expr, depth=0):
    """expr is tensors[0], tensors[0].value, or a local whose every definition is classical.reshape(<such>, ...)
    / a plain copy of such."""
    star = f.node.args.vararg.arg if f.node.args.vararg else None
    if expr is None or star is None or depth > 6:
        return False, "?"

    def base(e):
        if isinstance(e, ast.Attribute) and e.attr == "value":
            e = e.value
        if isinstance(e, ast.Name) and e.id != star:
            ds = [n.value for n in walk_no_nested(f.node) if isinstance(n, ast.Assign) and any(isinstance(t, ast.Name) and t.id == e.id for t in n.targets)]
            # `a, b = tensors[0], tensors[-1]`
            for n in walk_no_nested(f.node):
                if isinstance(n, ast.Assign) and isinstance(n.value, ast.Tuple):
                    for t in n.targets:
                        if isinstance(t, ast.Tuple) and len(t.elts) == len(n.value.elts):
                            ds += [v for te, v in zip(t.elts, n.value.elts) if isinstance(te, ast.Name) and te.id == e.id]
            return bool(ds) and all(base(d) for d in ds) and depth < 6
        return isinstance(e, ast.Subscript) and isinstance(e.value, ast.Name) and e.value.id == star and isinstance(e.slice, ast.Constant) and e.slice.value == 0

    if base(expr):
        return True, f"`{norm(expr)}` is {star}[0]"
    if isinstance(expr, ast.Name):
        defs = [n.value for n in walk_no_nested(f.node) if isinstance(n, ast.Assign) and any(isinstance(t, ast.Name) and t.id == expr.id for t in n.targets)]
        if not defs:
            return False, f"`{expr.id}` has no simple definition"
        for d in defs:
            if base(d):
                continue
            if isinstance(d, ast.Call) and isinstance(d.func, ast.Attribute) and d.func.attr == "reshape" and d.args:
                ok, _ = _derives_from_first_tensor(f, d.args[0], depth + 1) if not (isinstance(d.args[0], ast.Name) and d.args[0].id == expr.id) else (True, "")
                if ok:
                    continue
            if isinstance(d, ast.Call) and isinstance(d.func, ast.Name) and d.func.id == "op":
                continue  # result of the update itself
            return False, f"`{expr.id}` is also defined as {norm(d)[:50]}"
        return True, f"`{expr.id}` derives from {star}[0] through reshape only"
    return False, f"`{norm(expr)}` is not derived from {star}[0]"


def r3(p, rep):
    rep.rule("C09.R3", "the *_at primitives of the classical tables are reachable only from the update_at lowering", "T-EFF (who may reference)", floor=8)
    allowed_funcs = {"update_at_ravelled", "update_at"}
    for m in p.modules.values():
        if any(m.name == x for x in common.OFF_PATH_MODULES):
            continue
        for n in ast.walk(m.tree):
            # attribute reads `.set_at` etc on anything but the public einx namespace / self registration
            if isinstance(n, ast.Attribute) and n.attr in UPDATE_NAMES and isinstance(n.ctx, ast.Load):
                f = p.func_containing(n)
                where = f.qualname if f else m.name
                if m.name.endswith("frontend.ops") or m.name == "einx":
                    continue
                ok = isinstance(n.value, ast.Name) and n.value.id == "backend" and m.name.endswith("frontend.ops")
                # the table entry handed to the update_at lowering (`update_at(classical.set_at)`; the spelling
                # `getattr(classical, name) for name in adapter.ops.update_at` reads the same after canonicalisation)
                par_ = getattr(n, "_parent", None)
                if isinstance(par_, ast.Call) and n in par_.args and norm(par_.func).split(".")[-1] in allowed_funcs:
                    ok = True
                rep.add("C09.R3", f"{where}:read(.{n.attr})", f"{m.rel}:{n.lineno}", ok, f"`{norm(n)}` read outside the update_at lowering")
            # getattr(classical, name) for name in adapter.ops.<family>
            if isinstance(n, ast.Call) and isinstance(n.func, ast.Name) and n.func.id == "getattr" and len(n.args) == 2 and isinstance(n.args[1], ast.Name):
                fam = None
                # the name ranges over an operation family: comprehension or explicit loop over adapter.ops.<family>
                q = getattr(n, "_parent", None)
                while q is not None and fam is None and not isinstance(q, (ast.FunctionDef, ast.AsyncFunctionDef, ast.Module)):
                    gens = q.generators if isinstance(q, (ast.DictComp, ast.ListComp, ast.GeneratorExp, ast.SetComp)) else ([q] if isinstance(q, ast.For) else [])
                    for g in gens:
                        if isinstance(g.target, ast.Name) and g.target.id == n.args[1].id:
                            ch = attr_chain(g.iter)
                            if ch and len(ch) >= 2 and ch[-2] == "ops":
                                fam = ch[-1]
                    q = getattr(q, "_parent", None)
                if fam is None:
                    continue
                f = p.func_containing(n)
                par = getattr(n, "_parent", None)
                consumer = norm(par.func).split(".")[-1] if isinstance(par, ast.Call) else None
                key = f"{f.qualname if f else m.name}:getattr(classical,{fam})->{consumer}"
                if fam == "update_at":
                    rep.add("C09.R3", key, f"{m.rel}:{n.lineno}", consumer in allowed_funcs, f"*_at primitives handed to `{consumer}`")
                else:
                    rep.ok("C09.R3", key, f"{m.rel}:{n.lineno}", f"family {fam} -> {consumer}", nontrivial=False)


MUT_METHODS = {"append", "extend", "pop", "insert", "remove", "clear", "update", "add", "discard", "setdefault", "popitem", "sort", "reverse", "fill", "resize", "setflags", "put", "itemset", "partition", "byteswap"}
R4_MODULES = ("frontend.api", "frontend.util", "frontend.ops", "adapter.einx_from_namedtensor", "namedtensor.solve", "adapter.namedtensor_calltensorfactory", "frontend.impl._util")


def _fresh_accumulator(p, f, pname):
    """parameter `pname` of the private helper f is, at every call site in the project, a local of the caller that is
    bound (only) to a new empty container there"""
    if not f.name.startswith("_") or f.name.startswith("__") or pname not in f.params:
        return False
    idx = f.params.index(pname)
    sites = 0
    for g in p.funcs.values():
        if not isinstance(g.node, (ast.FunctionDef, ast.AsyncFunctionDef)):
            continue
        for c in ast.walk(g.node):
            if not isinstance(c, ast.Call) or p.func_containing(c) is not g:
                continue
            off = 0
            if f.cls is not None and isinstance(c.func, ast.Attribute) and c.func.attr == f.name and isinstance(c.func.value, ast.Name) and g.cls is not None and g.params and c.func.value.id == g.params[0] and p.lookup_method(g.cls, f.name) is f:
                off = 1
            elif f.cls is None and resolve_callee(p, c, g.module) == ("func", f):
                off = 0
            else:
                continue
            a = c.args[idx - off] if 0 <= idx - off < len(c.args) else next((k.value for k in c.keywords if k.arg == pname), None)
            if not isinstance(a, ast.Name) or a.id in g.params:
                return False
            top = g
            binds = [x.value for x in walk_no_nested(top.node) if isinstance(x, ast.Assign) and any(isinstance(t, ast.Name) and t.id == a.id for t in x.targets)]
            fresh = lambda v: (isinstance(v, (ast.List, ast.Dict, ast.Set)) and not (getattr(v, "elts", None) or getattr(v, "keys", None))) or (isinstance(v, ast.Call) and isinstance(v.func, ast.Name) and v.func.id in ("list", "dict", "set", "defaultdict", "OrderedDict") and not v.args)  # noqa: E731
            if not binds or not all(fresh(v) for v in binds):
                return False
            sites += 1
    return sites > 0


def r4(p, rep):
    rep.rule("C09.R4", "python-level code between the public entry points and the tracer does not mutate caller-owned objects", "T-TAINT (USERDATA -> mutation sinks)", floor=20)
    for f in p.funcs.values():
        if not any(f.module.name.endswith(m) for m in R4_MODULES):
            continue
        a = f.node.args
        collectors = {x.arg for x in [a.vararg, a.kwarg] if x}
        user = {x.arg for x in a.posonlyargs + a.args + a.kwonlyargs} - {"self", "cls"}
        # locals rebound to something fresh are no longer the caller's object
        rebound = set()
        for n in walk_no_nested(f.node):
            if isinstance(n, ast.Assign):
                for t in n.targets:
                    for e in t.elts if isinstance(t, ast.Tuple) else [t]:
                        if isinstance(e, ast.Name) and e.id in user:
                            rebound.add(e.id)
        bad = []
        for n in walk_no_nested(f.node):
            root = None
            what = None
            if isinstance(n, (ast.Assign, ast.AugAssign, ast.Delete)):
                ts = n.targets if isinstance(n, (ast.Assign, ast.Delete)) else [n.target]
                for t in ts:
                    for e in t.elts if isinstance(t, ast.Tuple) else [t]:
                        if isinstance(e, (ast.Subscript, ast.Attribute)):
                            r = chain_root(e)
                            if r is not None and r.id in user and r.id not in rebound:
                                # attribute stores on function objects (inner.__doc__ = ...) are on einx-owned closures
                                if isinstance(e, ast.Attribute) and e.attr.startswith("__"):
                                    continue
                                root, what = r.id, norm(e)
            elif isinstance(n, ast.Call) and isinstance(n.func, ast.Attribute) and n.func.attr in MUT_METHODS:
                # a mutator is called for its side effect (expression statement) or is a value-returning mutator
                used_for_effect = isinstance(getattr(n, "_parent", None), ast.Expr) or n.func.attr in ("pop", "popitem", "setdefault")
                r = chain_root(n.func.value)
                if used_for_effect and r is not None and r.id in user and r.id not in rebound:
                    root, what = r.id, norm(n.func)
            if root:
                bad.append((n, root, what))
        key = f"{f.qualname}:params"
        if bad:
            acc = {root for _, root, _ in bad if _fresh_accumulator(p, f, root)}
            for n, root, what in [b for b in bad if b[1] in acc]:
                rep.ok("C09.R4", f"{f.qualname}:accumulator({root})", f"{f.module.rel}:{n.lineno}", f"`{what}` fills `{root}`, which at every call site of this private helper is a container the caller itself just created (not a caller-owned object)")
            bad = [b for b in bad if b[1] not in acc]
        if bad:
            for n, root, what in bad:
                rep.violation("C09.R4", f"{f.qualname}:mutates({what})", f"{f.module.rel}:{n.lineno}", f"parameter `{root}` (caller-owned) is modified in place by `{what}`")
        else:
            rep.ok("C09.R4", key, f.loc, f"no in-place modification of parameters {sorted(user - rebound)}; collectors {sorted(collectors)} are fresh objects", nontrivial=bool(user))


# numpy ufuncs and functions that accept an output array positionally after their inputs
NUMPY_POSITIONAL_OUT = {
    "add": 2, "subtract": 2, "multiply": 2, "divide": 2, "true_divide": 2, "floor_divide": 2, "logaddexp": 2, "logical_and": 2, "logical_or": 2,
    "maximum": 2, "minimum": 2, "less": 2, "less_equal": 2, "greater": 2, "greater_equal": 2, "equal": 2, "not_equal": 2,
    "exp": 1, "log": 1, "negative": 1, "divmod": 2, "power": 2, "mod": 2, "sqrt": 1, "abs": 1, "logical_not": 1,
}
ARITY_WRAPPERS = {"_associative_binary_to_nary": "folds operands pairwise (always calls the ufunc with exactly two inputs)", "_fixed_arity": "rejects any other operand count"}


def r5(p, rep):
    rep.rule("C09.R5", "numpy ufuncs (which accept `out` positionally) are never handed surplus operands", "T-SIB arity wrapper on every ufunc registration", floor=20)
    cls = backends.classical_ops(p)["numpy"]
    ns = backends.local_namespace_aliases(cls)
    for r in backends.registrations(p, cls):
        if not isinstance(r.value, ast.Call) or not r.value.args:
            continue
        comb = (r.combinator or "").split(".")[-1]
        if comb != "elementwise":
            continue
        arg = r.value.args[0]
        wrapped = None
        prim = arg
        if isinstance(arg, ast.Call) and isinstance(arg.func, ast.Name) and arg.func.id in ARITY_WRAPPERS and arg.args:
            wrapped = arg.func.id
            prim = arg.args[0]
        ch = attr_chain(prim)
        if not (ch and ch[0] in ns):
            continue
        name = ch[-1]
        if name not in NUMPY_POSITIONAL_OUT:
            if name == "where":
                rep.ok("C09.R5", f"{cls.qualname}:{r.name}", r.site, "np.where takes no output argument", nontrivial=False)
            continue
        key = f"{cls.qualname}:{r.name}:arity"
        if wrapped is None:
            rep.violation("C09.R5", key, r.site, f"np.{name} takes {NUMPY_POSITIONAL_OUT[name]} inputs and then `out` positionally; registered without an arity wrapper, a call with one operand more writes the result into the caller's last tensor")
        else:
            ok = True
            if wrapped == "_fixed_arity":
                nv = arg.args[1] if len(arg.args) > 1 else next((k.value for k in arg.keywords if k.arg in ("n", "arity", "num_args", "nargs")), None)
                if nv is None and len(arg.keywords) == 1 and len(arg.args) == 1:
                    nv = arg.keywords[0].value  # the wrapper's only other parameter, by keyword
                n = nv.value if isinstance(nv, ast.Constant) else None
                ok = n == NUMPY_POSITIONAL_OUT[name]
            rep.add("C09.R5", key, r.site, ok, f"np.{name} wrapped by {wrapped}: {ARITY_WRAPPERS[wrapped]}" if ok else f"np.{name} has {NUMPY_POSITIONAL_OUT[name]} inputs but _fixed_arity allows {n}")
    # the wrapper itself: the wrapped op is only called when exactly `n` operands were given, otherwise it raises.
    # The wrapper may be written directly in _fixed_arity or in a shared helper it delegates to
    # (`return _with_arity(op, n, n)`); the path condition of the call `op(*args)` is evaluated over small operand counts.
    outer = p.func("_fixed_arity", "adapter._util")
    opname, nname = outer.params[0], outer.params[1]
    mapping = {}  # parameter of the function that holds the wrapper -> expression over _fixed_arity's parameters
    host = outer
    for _ in range(3):
        inners = [g for g in p.funcs.values() if g.parent is host]
        if inners:
            break
        rets = [x for x in walk_no_nested(host.node) if isinstance(x, ast.Return) and isinstance(x.value, ast.Call)]
        r = resolve_callee(p, rets[0].value, host.module) if len(rets) == 1 else None
        if not (r and r[0] == "func"):
            break
        call, h = rets[0].value, r[1]
        new_map = {}
        for i_, a in enumerate(call.args):
            if i_ < len(h.params):
                new_map[h.params[i_]] = a
        for k in call.keywords:
            if k.arg:
                new_map[k.arg] = k.value
        defaults = dict(zip(h.params[len(h.params) - len(h.node.args.defaults) :], h.node.args.defaults))
        for q, d in defaults.items():
            new_map.setdefault(q, d)
        mapping, host = new_map, h
    inners = [g for g in p.funcs.values() if g.parent is host]
    if not inners:
        raise AnalysisError("unrecognised idiom: _fixed_arity defines no wrapper function (directly or through the helper it returns)")
    from sa.cfg import CFG

    def ev(e, env):
        """value of a pure test over {operand count, n}; raises KeyError / TypeError when not evaluable"""
        if isinstance(e, ast.Constant):
            return e.value
        if isinstance(e, ast.Name):
            if e.id in mapping and host is not outer:
                return ev(mapping[e.id], env)
            if e.id not in env and e.id in env.get("__locals__", {}):
                return ev(env["__locals__"][e.id], env)  # `num_args = len(args)` bound once in the wrapper
            return env[e.id]
        if isinstance(e, ast.Call) and isinstance(e.func, ast.Name) and e.func.id == "len" and len(e.args) == 1 and isinstance(e.args[0], ast.Name):
            return env["len:" + e.args[0].id]
        if isinstance(e, ast.UnaryOp) and isinstance(e.op, ast.Not):
            return not ev(e.operand, env)
        if isinstance(e, ast.BoolOp):
            vals = (ev(v, env) for v in e.values)
            return all(vals) if isinstance(e.op, ast.And) else any(vals)
        if isinstance(e, ast.Compare) and len(e.ops) == 1:
            a, b, op = ev(e.left, env), ev(e.comparators[0], env), e.ops[0]
            import operator as O

            table = {ast.Eq: O.eq, ast.NotEq: O.ne, ast.Lt: O.lt, ast.LtE: O.le, ast.Gt: O.gt, ast.GtE: O.ge, ast.Is: O.is_, ast.IsNot: O.is_not}
            return table[type(op)](a, b)
        raise KeyError(norm(e))

    for g in inners:
        star = g.node.args.vararg.arg if g.node.args.vararg else None
        callee = next((k for k, v in mapping.items() if isinstance(v, ast.Name) and v.id == opname), opname) if host is not outer else opname
        calls = [c for c in walk_no_nested(g.node) if isinstance(c, ast.Call) and isinstance(c.func, ast.Name) and c.func.id == callee]
        cfg = CFG(g.node)
        ok = bool(calls) and star is not None
        why = ""
        for c in calls:
            facts = cfg.guards_of_ast(c)
            try:
                for n_ in (1, 2, 3):
                    for k_ in range(0, 6):
                        once = {}
                        for a_ in walk_no_nested(g.node):
                            if isinstance(a_, ast.Assign) and len(a_.targets) == 1 and isinstance(a_.targets[0], ast.Name):
                                once.setdefault(a_.targets[0].id, []).append(a_.value)
                        env = {nname: n_, "len:" + star: k_, "__locals__": {k: v[0] for k, v in once.items() if len(v) == 1}}
                        reached = all(bool(ev(t, env)) == pol for t, pol in facts)
                        if reached != (k_ == n_):
                            ok = False
                            why = f"with n = {n_} the wrapped operation is {'reached' if reached else 'not reached'} for {k_} operand(s)"
            except (KeyError, TypeError) as e:
                ok = False
                why = f"the path condition of the call is not a pure test over the operand count ({e})"
        raises = [r for r in walk_no_nested(g.node) if isinstance(r, ast.Raise)]
        rep.add("C09.R5", f"{outer.qualname}:guard", g.loc, ok and bool(raises), f"op(*{star}) is only reached when len({star}) == {nname}; otherwise raises" if ok and raises else f"the arity wrapper forwards operand lists of the wrong length ({why})")
    rep.assume("numpy ufuncs accept `out` as the positional argument after their nin inputs (NUMPY_POSITIONAL_OUT table)")


def r6(p, rep):
    from . import c13

    rep.rule("C13.R2", "graph=True never runs the compiled function", "T-DOM (guard on the false edge of `if graph`)", floor=2)
    c13.r2(p, rep)


ASSOCIATIVE_UFUNCS = {"add", "multiply", "logaddexp", "logaddexp2", "logical_and", "logical_or", "logical_xor", "maximum", "minimum", "fmax", "fmin", "bitwise_and", "bitwise_or", "bitwise_xor", "gcd", "lcm", "hypot"}
NON_ASSOCIATIVE_UFUNCS = {"subtract", "divide", "true_divide", "floor_divide", "power", "float_power", "mod", "remainder", "fmod", "arctan2", "less", "less_equal", "greater", "greater_equal", "equal", "not_equal", "divmod", "copysign", "ldexp", "left_shift", "right_shift", "nextafter"}


def r8(p, rep, rid="C09.R8"):
    rep.rule(rid, "only associative binary primitives are folded over any number of operands; a two-operand operation rejects every other operand count", "T-TAB (reviewed list of associative ufuncs) over the n-ary wrapper's uses", floor=5)
    n = 0
    for fw, cls in backends.classical_ops(p).items():
        ns = backends.local_namespace_aliases(cls)
        for r in backends.registrations(p, cls):
            for c in ast.walk(r.value) if isinstance(r.value, ast.AST) else []:
                if isinstance(c, ast.Call) and isinstance(c.func, ast.Name) and c.func.id == "_associative_binary_to_nary" and c.args:
                    ch = attr_chain(c.args[0])
                    if not (ch and ch[0] in ns):
                        continue
                    name = ch[-1]
                    n += 1
                    if name in NON_ASSOCIATIVE_UFUNCS:
                        rep.violation(rid, f"{cls.qualname}:{r.name}:nary", r.site, f"`{norm(c)}` folds {name} over any number of operands, but {name} is not associative (and takes exactly two): einx.{r.name} with three tensors silently computes ({name} of {name}) instead of raising the documented 'Expected 2 argument tensors' error, and with one tensor returns it unchanged")
                    elif name in ASSOCIATIVE_UFUNCS:
                        rep.ok(rid, f"{cls.qualname}:{r.name}:nary", r.site, f"{name} is associative: folding it pairwise is the n-ary operation")
                    else:
                        rep.ok(rid, f"{cls.qualname}:{r.name}:nary", r.site, f"{name}: not in the reviewed lists (not judged)", nontrivial=False)
    if n == 0:
        raise AnalysisError("unrecognised idiom: no use of _associative_binary_to_nary in the backend tables")


def run(p, rep, tier):
    r1(p, rep)
    r2(p, rep)
    r3(p, rep)
    r4(p, rep)
    r5(p, rep)
    r6(p, rep)
    r8(p, rep)
    from . import c06 as _c06

    _c06.r6(p, rep, parts=("reads-only",))  # non-tensor arguments (sizes, options) pass through the cache-key freezing
    rep.info["undecided"] = "aliasing performed inside framework primitives (whether a reshape returned a view) - only relevant for the documented *_at exception, because R1-R3 show no other in-place operation can be emitted"
