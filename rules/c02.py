"""C02 - axis and rank solving is sound, unambiguous and exact.

Decided clauses:
 R1 exact arithmetic on the length data flow: no narrowing conversion (<= 32-bit ints, floats), no
    un-typed numpy product/sum, no true division in the solver layers
 R2 solver failures are mapped to RankError / AxisSizeError (shared with C03.R3)
 R3 every inner solve closure checks completeness and sign of the solution before returning it
 R4 unknowns are declared as non-negative integers to the equation solver
 R5 matches() returns False only from its handler and True only after solving returned
 R6 keyword sizes are validated to be integers before they are converted
 R7 known (possibly zero) lengths are tested with `is None`, never by truthiness (shared with C12.R6)
"""

from __future__ import annotations

import ast

from sa.cfg import CFG
from sa.core import AnalysisError, attr_chain, enclosing, norm, parents, resolve_callee, src, walk_no_nested

from sa.cfg import ReachingDefs

from . import common

R1_MODULES = ("einx._src.namedtensor.", "einx._src.util.solver", "einx._src.frontend.util")
NARROW = {
    "int8", "int16", "int32", "uint8", "uint16", "uint32", "i1", "i2", "i4", "u1", "u2", "u4", "int", "intc", "short", "byte",
    "float16", "float32", "float64", "float", "f2", "f4", "f8", "half", "single", "double", "bool",
}
WIDE = {"int64", "i8", "object", "O", "uint64", "u8", "longlong"}


def _dtype_name(node, p=None, m=None):
    if isinstance(node, ast.Constant) and isinstance(node.value, str):
        return node.value
    if p is not None and m is not None and isinstance(node, (ast.Name, ast.Attribute)) and not (isinstance(node, ast.Name) and node.id in ("int", "float", "bool")):
        # a module constant (`INT_DTYPE = "int64"`, possibly imported from another module of the package)
        try:
            from sa.core import LiteralEvaluator

            v = LiteralEvaluator(p, m).eval(node)
            if isinstance(v, str):
                return v
        except Exception:
            pass
    ch = attr_chain(node)
    if ch and len(ch) >= 2 and ch[0] in ("np", "numpy", "_np"):
        return ch[-1]
    if isinstance(node, ast.Name) and node.id in ("int", "float", "bool"):
        return node.id
    return None


def _in_scope(m):
    return any(m.name.startswith(x) or m.name == x for x in R1_MODULES)


def _provably_empty_guard(p, f, node):
    """Is `node` dominated by a test `expr == [] or expr == ()` (the converted operand is empty)?"""
    cfg = common.cfg_of(f)
    for t, pol in cfg.guards_of_ast(node):
        if pol and isinstance(t, ast.BoolOp) and isinstance(t.op, ast.Or):
            if all(isinstance(v, ast.Compare) and isinstance(v.ops[0], ast.Eq) and isinstance(v.comparators[0], (ast.List, ast.Tuple)) and not v.comparators[0].elts for v in t.values):
                return True
        if pol and isinstance(t, ast.Compare) and isinstance(t.ops[0], ast.Eq) and isinstance(t.comparators[0], (ast.List, ast.Tuple)) and not t.comparators[0].elts:
            return True
    return False


def r1(p, rep):
    rep.rule("C02.R1", "exact arithmetic on the length data flow (no narrowing conversion, no un-typed numpy product/sum, no true division)", "T-TAINT (SIZE) sink sweep", floor=8)
    n_sites = 0
    for m in p.modules.values():
        if not _in_scope(m):
            continue
        for n in ast.walk(m.tree):
            f = p.func_containing(n)
            where = f.qualname if f else m.name
            site = f"{m.rel}:{getattr(n, 'lineno', 0)}"
            if isinstance(n, ast.Call):
                fn = n.func
                # .astype(D)
                if isinstance(fn, ast.Attribute) and fn.attr == "astype" and n.args:
                    n_sites += 1
                    d = _dtype_name(n.args[0], p, m)
                    key = f"{where}:astype({d})"
                    if d in WIDE:
                        rep.ok("C02.R1", key, site, f"conversion to {d} (>= 64 bit)")
                    elif f is not None and _provably_empty_guard(p, f, n):
                        rep.exempt("C02.R1", key, site, "operand is provably empty (dominated by `expr == [] or expr == ()`)")
                    else:
                        rep.violation("C02.R1", key, site, f"`{norm(n)[:70]}` narrows axis lengths / sizes to {d}: products beyond 2**31 wrap silently (or fractions are truncated)")
                # dtype=D keyword on array constructors
                for k in n.keywords:
                    if k.arg == "dtype":
                        n_sites += 1
                        d = _dtype_name(k.value, p, m)
                        key = f"{where}:dtype={d}:{norm(fn)}"
                        if d in WIDE:
                            rep.ok("C02.R1", key, site, f"dtype={d}")
                        else:
                            rep.violation("C02.R1", key, site, f"`{norm(n)[:70]}` stores lengths in {d}: values beyond its range wrap")
                # np.int32(x) style casts
                ch = attr_chain(fn)
                if ch and len(ch) == 2 and ch[0] in ("np", "numpy", "_np") and ch[1] in NARROW and ch[1] not in ("bool",):
                    n_sites += 1
                    rep.violation("C02.R1", f"{where}:cast(np.{ch[1]})", site, f"`{norm(n)[:70]}` casts a length to a fixed-width {ch[1]}")
                # un-typed numpy product / sum over Python lists
                if ch and len(ch) == 2 and ch[0] in ("np", "numpy", "_np") and ch[1] in ("prod", "sum", "cumsum", "cumprod", "product"):
                    n_sites += 1
                    dt = next((k.value for k in n.keywords if k.arg == "dtype"), None)
                    key = f"{where}:np.{ch[1]}"
                    if dt is not None and _dtype_name(dt, p, m) in WIDE:
                        rep.ok("C02.R1", key, site, f"np.{ch[1]} with dtype={_dtype_name(dt)}")
                    else:
                        rep.violation("C02.R1", key, site, f"`{norm(n)[:70]}`: np.{ch[1]} over a Python list is float 1.0/0.0 for an empty list and a fixed-width integer otherwise; use math.prod / sum for exact lengths")
                # exact replacements are counted as instances of the rule
                if (ch == ["math", "prod"]) or (isinstance(fn, ast.Name) and fn.id == "sum" and f is not None and f.name in ("value", "__init__", "ndim")):
                    n_sites += 1
                    rep.ok("C02.R1", f"{where}:{norm(fn)}", site, "exact Python integer arithmetic")
            elif isinstance(n, ast.BinOp) and isinstance(n.op, ast.Div):
                n_sites += 1
                rep.violation("C02.R1", f"{where}:truediv:{norm(n)[:40]}", site, f"`{norm(n)[:60]}` uses float division in the solver layer; lengths must stay exact integers (use // with a divisibility check)")
    if n_sites < 8:
        raise AnalysisError(f"only {n_sites} arithmetic/conversion sites found in the solver layers")


def inner_solve_closures(p):
    """closures that call util.solver.solve directly"""
    out = []
    target = p.func("solve", "einx._src.util.solver")
    for f in p.funcs.values():
        if f.module is target.module:
            continue
        for n in walk_no_nested(f.node):
            if isinstance(n, ast.Call):
                r = resolve_callee(p, n, f.module)
                if r and r[0] == "func" and r[1] is target:
                    out.append((f, n))
    if len(out) < 3:
        raise AnalysisError(f"anchor vanished: expected 3 closures calling solver.solve (stage2 x2, stage3), found {[f.qualname for f, _ in out]}")
    return out


def r3(p, rep):
    rep.rule("C02.R3", "the solution is checked for completeness and sign before it is returned", "T-MPT (dominators)", floor=6)
    base = p.cls("SolveException", "util.solver")
    for f, call in inner_solve_closures(p):
        cfg = CFG(f.node)
        rets = [n for n in walk_no_nested(f.node) if isinstance(n, ast.Return) and n.value is not None]
        if len(rets) != 1:
            raise AnalysisError(f"unrecognised idiom: {f.qualname} has {len(rets)} value returns")
        ret = cfg.node_for(rets[0])
        want_le = f.module.name.endswith("stage3.solve")  # lengths must be >= 1; depths / expansions >= 0
        found = {"NoSolution": None, "TooManySolutions": None}
        for r in [n for n in walk_no_nested(f.node) if isinstance(n, ast.Raise)]:
            kind, nm = common.raised_class(p, f.module, r, f.node)
            if kind != "project":
                continue
            short = nm.split("SolveException")[-1]
            if short not in found:
                continue
            iff = enclosing(r, ast.If)
            if iff is None:
                continue
            # the raise guards the return: the false edge of its `if` dominates the return
            fe = [n for n in cfg.nodes if n.kind == "edge" and n.ast is iff and n.polarity is False]
            dominates = bool(fe) and cfg.dominates(fe[0], ret)
            if fe:
                common.thorough_paths(rep, f"C02.R3:{f.qualname.split('::')[1]}:{short}", cfg, cfg.node_for(call), ret, [fe[0]], dominator_verdict=dominates)
            # the collection tested by the `if` and the condition under which it is filled
            coll = None
            direct = None
            t = iff.test
            if isinstance(t, ast.Compare) and isinstance(t.left, ast.Call) and isinstance(t.left.func, ast.Name) and t.left.func.id == "len":
                coll = norm(t.left.args[0])
                if not isinstance(t.left.args[0], ast.Name):
                    direct = t.left.args[0]  # `if len(<expression>) > 0`
            # `if any(<test> for v in S): raise`: the element test is the condition
            anyc = []
            if isinstance(t, ast.Call) and isinstance(t.func, ast.Name) and t.func.id == "any" and len(t.args) == 1 and isinstance(t.args[0], (ast.GeneratorExp, ast.ListComp)):
                from sa.cfg import decompose as _dec

                for c_ in [t.args[0].elt] + [i_ for g_ in t.args[0].generators for i_ in g_.ifs]:
                    for tt, pol in _dec(c_, True):
                        pos = common.as_positive(tt, pol)
                        if pos is not None:
                            anyc.append(pos)
            fills = []
            if coll:
                for n in walk_no_nested(f.node):
                    if isinstance(n, ast.Call) and isinstance(n.func, ast.Attribute) and n.func.attr in ("add", "append") and norm(n.func.value) == coll and n.lineno < iff.lineno:
                        # innermost reaching assignment of coll before this if: only fills after the last reset
                        fills.append(n)
                resets = [a.lineno for a in walk_no_nested(f.node) if isinstance(a, ast.Assign) and any(norm(t2) == coll for t2 in a.targets) and a.lineno < iff.lineno]
                last = max(resets) if resets else 0
                fills = [x for x in fills if x.lineno > last]
            conds = []
            # the collection built in one go: `failed = {e for ... if <test>}` - the filters are the conditions
            if coll:
                from sa.cfg import decompose

                builds = [a for a in walk_no_nested(f.node) if isinstance(a, ast.Assign) and any(norm(t2) == coll for t2 in a.targets) and a.lineno < iff.lineno]
                if builds or direct is not None:
                    v = max(builds, key=lambda a: a.lineno).value if direct is None else direct
                    if isinstance(v, ast.Call) and norm(v.func) in ("set", "list", "frozenset", "tuple", "sorted") and len(v.args) == 1:
                        v = v.args[0]
                    if isinstance(v, ast.Call):
                        # the collection is built by an extracted one-expression helper: read its filters with
                        # the arguments (and defaults) of this call
                        v = common.expand_pure_call(p, f.module, v) or v
                    if isinstance(v, (ast.SetComp, ast.ListComp, ast.GeneratorExp)):
                        for g in v.generators:
                            for c in g.ifs:
                                for tt, pol in decompose(c, True):
                                    pos = common.as_positive(tt, pol)
                                    if pos is not None:
                                        conds.append(pos)
            for x in fills:
                for tt, pol in cfg.guards_of_ast(x):
                    pos = common.as_positive(tt, pol)  # `if k in sol: continue` guards the fill with `k not in sol`
                    if pos is not None:
                        conds.append(pos)
            found[short] = (r, dominates, conds + anyc)
        for short, val in found.items():
            key = f"{f.qualname}:{short}"
            if val is None:
                rep.violation("C02.R3", key, f.loc, f"{f.name} returns the solver's result without a check that raises SolveException{short}" + (" (unknowns the solver left undetermined would be silently missing)" if short == "TooManySolutions" else " (zero / negative lengths would be accepted)"))
                continue
            r, dominates, conds = val
            site = f"{f.module.rel}:{r.lineno}"
            if not dominates:
                rep.violation("C02.R3", key, site, "the check does not guard the return (a path to `return` avoids it)")
                continue
            if short == "NoSolution":
                # smallest value that passes the test: `< c` -> c, `<= c` -> c + 1
                least = [c.comparators[0].value + (1 if isinstance(c.ops[0], ast.LtE) else 0) for c in conds if isinstance(c, ast.Compare) and len(c.ops) == 1 and isinstance(c.ops[0], (ast.Lt, ast.LtE)) and isinstance(c.comparators[0], ast.Constant) and type(c.comparators[0].value) is int]
                good = any(v == 1 for v in least) if want_le else any(v in (0, 1) for v in least)
                rep.add("C02.R3", key, site, good, f"sign test {[norm(c) for c in conds][-1:] } " + ("(lengths must be >= 1: `<= 0`)" if want_le else "(depths / expansions must be >= 0: `< 0`)") if conds else "no sign comparison with 0 guards the failure set")
            else:
                good = any(isinstance(c, ast.Compare) and isinstance(c.ops[0], ast.NotIn) for c in conds)
                rep.add("C02.R3", key, site, good, f"completeness test {[norm(c) for c in conds][-1:]}" if conds else "no `not in <solution>` test guards the failure list")


def r4(p, rep):
    rep.rule("C02.R4", "unknowns are declared integer and non-negative to sympy", "T-TAB", floor=1)
    m = p.module("einx._src.util.solver")
    n = 0
    for node in ast.walk(m.tree):
        if isinstance(node, ast.Call):
            r = p.resolve_expr(m, node.func)
            if r and r[0] == "external" and r[1] in ("sympy.Symbol", "sympy.symbols", "sympy.Dummy"):
                n += 1
                kws = {k.arg: k.value for k in node.keywords}
                f = p.func_containing(node)
                for flag in ("integer", "nonnegative"):
                    v = kws.get(flag)
                    ok = isinstance(v, ast.Constant) and v.value is True
                    rep.add("C02.R4", f"{f.qualname if f else m.name}:{r[1]}:{flag}", f"{m.rel}:{node.lineno}", ok, f"{flag}={norm(v) if v is not None else '<missing>'}" + ("" if ok else f": without {flag}=True sympy may return fractional / negative lengths (3*b = 4 gives b = 4/3, truncated by int())"))
    if n == 0:
        raise AnalysisError("anchor vanished: no sympy.Symbol construction in util/solver.py")


def r5(p, rep):
    rep.rule("C02.R5", "matches() is True only after solving returned, False only from its handler", "T-DOM", floor=2)
    f = p.func("matches", "frontend.util")
    # path-wise: the value returned on a path is True exactly when the path went through the solving call and through
    # no exception handler (flag variables are followed along the path)
    cfg = CFG(f.node)
    byid = {n.id: n for n in cfg.nodes}
    solve_names = ("solve_shapes", "solve_axes", "_solve", "solve")
    results = []
    for path in cfg.paths(cfg.entry, {cfg.exit.id}, limit=2000):
        env, handled, solved, ret = {}, False, False, "?"
        for nid in path:
            nd = byid[nid]
            if nd.kind == "handler":
                handled = True
            if nd.kind == "stmt" and nd.ast is not None:
                st = nd.ast
                if any(isinstance(c, ast.Call) and isinstance(c.func, ast.Name) and c.func.id in solve_names for c in ast.walk(st) if not isinstance(st, (ast.Try, ast.If, ast.With, ast.For, ast.While))):
                    solved = True
                if isinstance(st, ast.Assign) and len(st.targets) == 1 and isinstance(st.targets[0], ast.Name):
                    env[st.targets[0].id] = st.value.value if isinstance(st.value, ast.Constant) else "?"
                if isinstance(st, ast.Return):
                    v = st.value
                    ret = v.value if isinstance(v, ast.Constant) else (env.get(v.id, "?") if isinstance(v, ast.Name) else "?")
        results.append((handled, solved, ret))
    if not results:
        raise AnalysisError("unrecognised idiom: matches() has no path to a return")
    site = f.loc
    ok_true = all(ret is True and solved for handled, solved, ret in results if not handled) and any(not handled for handled, _, _ in results)
    rep.add("C02.R5", f"{f.qualname}:true", site, ok_true, "True is returned exactly on the paths on which the solving call returned normally" if ok_true else f"a path that does not go through an exception handler returns something other than True, or skips the solving call: {[r for r in results if not r[0]][:3]}")
    ok_false = all(ret is False for handled, solved, ret in results if handled) and any(handled for handled, _, _ in results)
    rep.add("C02.R5", f"{f.qualname}:false", site, ok_false, "False is returned exactly on the paths through the exception handler" if ok_false else f"a path through the exception handler does not return False: {[r for r in results if r[0]][:3]}")
    # solve_shapes / solve_axes re-raise (reraise=True)
    from sa.cfg import _lookup_def

    def reraise_values(fnode, env, depth=0):
        """constant values of the `reraise` argument with which _solve is (transitively, through lexical helpers) called"""
        out = []
        if depth > 3:
            return ["?"]
        for c in ast.walk(fnode):
            if not (isinstance(c, ast.Call) and isinstance(c.func, ast.Name)):
                continue
            if c.func.id == "_solve":
                v = common.kwarg(c, "reraise")
                if v is None and len(c.args) > 3:
                    v = c.args[3]
                if isinstance(v, ast.Constant):
                    out.append(v.value)
                elif isinstance(v, ast.Name) and v.id in env:
                    out.append(env[v.id])
                else:
                    out.append("?")
            else:
                h = _lookup_def(c)
                if h is not None and h is not fnode and any(isinstance(x, ast.Call) and isinstance(x.func, ast.Name) and (x.func.id == "_solve" or _lookup_def(x) is not None) for x in ast.walk(h)):
                    hp = [a.arg for a in h.args.posonlyargs + h.args.args]
                    henv = {}
                    for i, a in enumerate(c.args):
                        if i < len(hp) and isinstance(a, ast.Constant):
                            henv[hp[i]] = a.value
                    for k in c.keywords:
                        if k.arg and isinstance(k.value, ast.Constant):
                            henv[k.arg] = k.value.value
                    out += reraise_values(h, henv, depth + 1)
        return out

    for name in ("solve_shapes", "solve_axes"):
        g = p.func(name, "frontend.util")
        vals = reraise_values(g.node, {})
        ok = bool(vals) and all(v is True for v in vals)
        rep.add("C02.R5", f"{g.qualname}:reraise", g.loc, ok, "failures are re-raised to the caller (reraise=True)" if ok else f"_solve is reached with reraise={vals}: a failure is swallowed and None is returned instead of the documented error")


def r6(p, rep):
    rep.rule("C02.R6", "sizes given by the caller are validated to be integers before conversion", "T-DOM (guard form)", floor=2)
    targets = [(p.func("solve", "einx._src.namedtensor.solve"), "parameters"), (p.func("_input_expr", "namedtensor.stage2.solve"), "expr")]
    for f, what in targets:
        # a raise that executes exactly when `issubdtype(...)` is false, however the branch is written
        # (`if not issubdtype: raise`, `if issubdtype: ... else: raise`, through a named boolean ...)
        guards = []
        for g in common.with_helpers(p, f):
            gcfg = common.cfg_of(g)
            for n in walk_no_nested(g.node):
                if isinstance(n, ast.Raise):
                    for t, pol in gcfg.guards_of_ast(n):
                        if pol is False and isinstance(t, ast.Call) and norm(t.func).endswith("issubdtype") and len(t.args) == 2:
                            guards.append((n, t))
        key = f"{f.qualname}:integer-guard"
        if not guards:
            rep.violation("C02.R6", key, f.loc, f"{f.name} converts caller-supplied sizes without an `np.issubdtype(<dtype>, np.integer)` check")
            continue
        for iff, c in guards:
            r = p.resolve_expr(f.module, c.args[1], f.node)
            is_integer = bool(r and r[0] == "external" and r[1] == "numpy.integer")
            raises = True  # `iff` is the raise itself
            rep.add(
                "C02.R6",
                key,
                f"{f.module.rel}:{iff.lineno}",
                is_integer and raises,
                f"`{norm(c)}` must hold, otherwise ValueError" if is_integer and raises else f"the dtype check accepts `{norm(c.args[1])}` (not only integers): a size such as 2.5 is truncated by the integer conversion and the call is computed instead of rejected",
            )


def r8(p, rep):
    rep.rule("C02.R8", "no equation is discarded on the way to the solver except syntactic tautologies and equations the solver already evaluated to true", "T-DER (every filter on the provenance chain of the list handed to sympy.solve)", floor=3)
    from sa.cfg import decompose

    f0 = p.func("solve", "einx._src.util.solver")
    n = 0
    solves = []
    for g in common.with_helpers(p, f0):
        for c in walk_no_nested(g.node):
            if isinstance(c, ast.Call):
                r = p.resolve_expr(g.module, c.func, g.node)
                if r and r[0] == "external" and r[1] == "sympy.solve":
                    solves.append((g, c))
    if not solves:
        raise AnalysisError("unrecognised idiom: no call of sympy.solve reachable from util.solver.solve")

    def judge_filter(g, comp, gen, cond):
        """is `cond` a filter that can only drop (a) equations with identical sides or (b) equations sympy evaluated to True"""
        tgt = [x.id for x in ast.walk(gen.target) if isinstance(x, ast.Name)]
        if isinstance(cond, ast.Compare) and len(cond.ops) == 1 and isinstance(cond.ops[0], ast.NotEq) and isinstance(cond.left, ast.Name) and isinstance(cond.comparators[0], ast.Name) and {cond.left.id, cond.comparators[0].id} == set(tgt) and len(tgt) == 2:
            return True, "drops only equations whose two sides are identical"
        # dropped when the condition is false: the conjuncts of `not cond` must include "the equation is true"
        dropped = decompose(cond, False)
        for t, pol in dropped:
            if not pol:
                continue
            if isinstance(t, ast.Call) and isinstance(t.func, ast.Name) and t.func.id == "bool" and len(t.args) == 1 and isinstance(t.args[0], ast.Name) and t.args[0].id in tgt:
                return True, "drops only equations that sympy already evaluated to True"
            if isinstance(t, ast.Compare) and len(t.ops) == 1 and isinstance(t.ops[0], (ast.Eq, ast.Is)) and isinstance(t.left, ast.Name) and t.left.id in tgt and norm(t.comparators[0]) in ("True", "sympy.true", "sympy.S.true"):
                return True, "drops only equations that sympy already evaluated to True"
        return False, ""

    seen = set()

    def chain(g, e, depth=0):
        """walk the provenance of the equation list backwards and judge every filter"""
        nonlocal n
        if depth > 8 or e is None:
            return
        if isinstance(e, ast.Name):
            if e.id in g.params:
                # handed in by the caller(s)
                for h in common.with_helpers(p, f0):
                    for c in walk_no_nested(h.node):
                        rc = resolve_callee(p, c, h.module) if isinstance(c, ast.Call) else None
                        if rc is not None and (rc == ("func", g) or (g.name == "__init__" and g.cls is not None and rc == ("class", g.cls))):
                            i_ = g.params.index(e.id) - (1 if rc[0] == "class" else 0)
                            a = c.args[i_] if 0 <= i_ < len(c.args) else next((k.value for k in c.keywords if k.arg == e.id), None)
                            chain(h, a, depth + 1)
                return
            for a in walk_no_nested(g.node):
                if isinstance(a, ast.Assign) and any(isinstance(t, ast.Name) and t.id == e.id for t in a.targets) and id(a) not in seen:
                    seen.add(id(a))
                    chain(g, a.value, depth + 1)
            return
        if isinstance(e, ast.Attribute) and isinstance(e.value, ast.Name) and g.cls is not None and g.params and e.value.id == g.params[0]:
            # a field of the helper object: where the class binds it
            for mth in g.cls.methods.values():
                for a in walk_no_nested(mth.node):
                    if isinstance(a, ast.Assign) and any(isinstance(t, ast.Attribute) and t.attr == e.attr and isinstance(t.value, ast.Name) and t.value.id == mth.params[0] for t in a.targets) and id(a) not in seen:
                        seen.add(id(a))
                        chain(mth, a.value, depth + 1)
            return
        if isinstance(e, (ast.ListComp, ast.GeneratorExp, ast.SetComp)):
            for gen in e.generators:
                n += 1
                for cond in gen.ifs:
                    ok, why = judge_filter(g, e, gen, cond)
                    rep.add("C02.R8", f"{g.qualname}:filter({norm(cond)[:50]})", f"{g.module.rel}:{e.lineno}", ok, why if ok else f"the filter `{norm(cond)}` removes equations from the system: a constraint that is already known to be false (e.g. parity clash 2*a = 7, or `b + 6 = 5` for a non-negative b) vanishes and an inconsistent input is reported as solvable")
                if not gen.ifs:
                    rep.ok("C02.R8", f"{g.qualname}:rebuild({norm(gen.iter)[:30]})", f"{g.module.rel}:{e.lineno}", "every equation is carried over")
                chain(g, gen.iter, depth + 1)
            return
        if isinstance(e, ast.Call) and isinstance(e.func, ast.Name) and e.func.id in ("list", "tuple") and e.args:
            chain(g, e.args[0], depth + 1)

    for g, c in solves:
        n += 1
        a0 = c.args[0] if c.args else None
        ok = isinstance(a0, (ast.Name, ast.ListComp, ast.Attribute))
        rep.add("C02.R8", f"{g.qualname}:sympy.solve:arg0", f"{g.module.rel}:{c.lineno}", ok, f"sympy.solve receives `{norm(a0)[:40] if a0 is not None else None}`" if ok else f"sympy.solve receives `{norm(a0) if a0 is not None else None}`, which is not a traceable equation list")
        chain(g, a0)
    # explicit appends into an equation list are only skipped for identical sides
    for g in common.with_helpers(p, f0):
        for node in walk_no_nested(g.node):
            if isinstance(node, ast.Call) and isinstance(node.func, ast.Attribute) and node.func.attr == "append" and isinstance(node.func.value, ast.Name) and "equation" in node.func.value.id:
                n += 1
                facts = [(norm(t), pol) for t, pol in common.cfg_of(g).guards_of_ast(node)]
                rep.ok("C02.R8", f"{g.qualname}:append({node.func.value.id})", f"{g.module.rel}:{node.lineno}", f"appended under {facts[-2:]}", nontrivial=True)
    if n < 3:
        raise AnalysisError("unrecognised idiom: equation-list handling in util.solver.solve not found")


def r9(p, rep):
    rep.rule("C02.R9", "one solution is taken from sympy's solution set only when the set has exactly one element (none / several raise)", "T-DOM (interval on len() from the dominating guards)", floor=1)
    f0 = p.func("solve", "einx._src.util.solver")
    n = 0
    for f in common.with_helpers(p, f0):
        n += _r9_in(p, rep, f)
    if n == 0:
        raise AnalysisError("unrecognised idiom: no element is taken from sympy's solution set in util.solver.solve")


def _default_is_rejected(f, cfg, call):
    st = next((x for x in walk_no_nested(f.node) if isinstance(x, ast.Assign) and x.value is call and len(x.targets) == 1 and isinstance(x.targets[0], ast.Name)), None)
    if st is None:
        return False
    name = st.targets[0].id
    if sum(1 for x in walk_no_nested(f.node) if isinstance(x, ast.Name) and x.id == name and isinstance(x.ctx, ast.Store)) != 1:
        return False
    uses = 0
    for x in walk_no_nested(f.node):
        if not (isinstance(x, ast.Name) and x.id == name and isinstance(x.ctx, ast.Load)):
            continue
        par = getattr(x, "_parent", None)
        if isinstance(par, ast.Compare) and len(par.ops) == 1 and isinstance(par.ops[0], (ast.Is, ast.IsNot)) and isinstance(par.comparators[0], ast.Constant) and par.comparators[0].value is None:
            continue
        uses += 1
        known = False
        for t, pol in cfg.guards_of_ast(x):
            if isinstance(t, ast.Compare) and len(t.ops) == 1 and isinstance(t.left, ast.Name) and t.left.id == name and isinstance(t.comparators[0], ast.Constant) and t.comparators[0].value is None:
                if (isinstance(t.ops[0], ast.Is) and pol is False) or (isinstance(t.ops[0], ast.IsNot) and pol is True):
                    known = True
        if not known:
            return False
    return uses > 0


def _r9_in(p, rep, f):
    cfg = common.cfg_of(f)
    n = 0
    for node, sel, _form in common.take_one_sites(f.node):
        # only selections from the solver result: a reaching definition of the name is (derived from) the value
        # sympy.solve returned
        rd = ReachingDefs(cfg)
        byid = {x.id: x for x in cfg.nodes}

        def from_solver(at_node, name, depth=0):
            if depth > 4 or at_node is None:
                return False
            for did in rd.defs_reaching(at_node, name):
                d = byid[did]
                val = getattr(d.ast, "value", None)
                if val is None:
                    continue
                for c in ast.walk(val):
                    if isinstance(c, ast.Call):
                        r = p.resolve_expr(f.module, c.func, f.node)
                        if r and r[0] == "external" and r[1] == "sympy.solve":
                            return True
                for x in ast.walk(val):
                    if isinstance(x, ast.Name) and from_solver(d, x.id, depth + 1):
                        return True
            return False

        src_ok = from_solver(cfg.node_for(node), sel.id)
        if not src_ok:
            continue
        n += 1
        use = cfg.node_for(node)
        here = rd.defs_reaching(use, sel.id)
        # a guard speaks about the same value only if the name was not rebound between the test and the use
        facts = [(t, pol) for t, pol in cfg.guards_of_ast(node) if t is None or sel.id not in {x.id for x in ast.walk(t) if isinstance(x, ast.Name)} or (cfg.node_for(t) is not None and rd.defs_reaching(cfg.node_for(t), sel.id) == here)]
        lo, hi = common.len_bounds(facts, sel.id)
        ok = (lo, hi) == (1, 1)
        if not ok and (lo, hi) == (0, 1) and isinstance(node, ast.Call) and len(node.args) == 2 and isinstance(node.args[1], ast.Constant) and node.args[1].value is None:
            # `x = next(iter(S), None)`: the empty set yields the default; fine when x is only used where it is
            # known not to be the default (the `x is None` arm raises)
            ok = _default_is_rejected(f, cfg, node)
        rep.add("C02.R9", f"{f.qualname}:take-one({sel.id})", f"{f.module.rel}:{node.lineno}", ok, f"`{norm(node)}` is reached only with len({sel.id}) == 1" if ok else f"`{norm(node)}` is reached with len({sel.id}) in [{lo}, {hi if hi is not None else 'inf'}]: with several solutions an arbitrary one (set order) is reported as THE solution instead of raising SolveExceptionTooManySolutions - ambiguous sizes are silently resolved")
    return n


def run(p, rep, tier):
    r1(p, rep)
    r8(p, rep)
    r9(p, rep)
    rep.rule("C02.R2", "solver failures are mapped to RankError / AxisSizeError", "T-DOM try/except coverage over the call graph", floor=4)
    common.solver_failures_mapped(p, rep, "C02.R2")
    r3(p, rep)
    r4(p, rep)
    r5(p, rep)
    r6(p, rep)
    from . import c12

    c12.r12(p, rep)  # positions of synthesised nodes must not reach the error constructors
    c12.r6(p, rep)
    from . import c07

    rep.rule("C07.R1", "aliases of the solving helpers hand on every argument (einx.solve == einx.solve_axes)", "T-SIB (forwarding)", floor=1)
    c07.aliases(p, rep)
    rep.assume("sympy honours integer=True / nonnegative=True and classifies unique / no / many solutions correctly")
    rep.assume("the solution set of an equation system does not depend on equation order")
    rep.info["undecided"] = "that the equation systems are the right ones, that common-subexpression elimination preserves the solution set (matches('(b 3)', len-4) is True on this tree), and sympy's own classification"
