"""C17 - generated code is loop-free and size-generic.

Decided clauses:
 R1 emitter templates are straight-line: no loop / branch / comprehension keyword can be emitted
 R2 no Python-level iteration (range, sequence repetition, while, numpy array constructors evaluated
    at trace time) is bounded by an axis length in the lowering code
 R3 size-dependent decisions are 1-tests (or zero-size / shape-equality tests): no ordering comparison,
    modulo or selection-by-size on axis lengths outside validation that ends in a raise
 R4 = C04.R4(a): every IR node class has an emitter branch (no way to smuggle a loop node past R1)
"""

from __future__ import annotations

import ast

from sa.core import register_cache  # noqa: E402
import re

from sa.core import AnalysisError, attr_chain, enclosing, norm, parents, resolve_callee, walk_no_nested

from . import common
from .c16 import confined_to_raise

FORBIDDEN_KW = {"for", "while", "if", "else", "elif", "try", "except", "finally", "with", "lambda", "yield", "async", "await", "match", "case", "class", "global", "nonlocal", "del"}
ALLOWED_KW = {"import", "from", "as", "def", "return", "assert", "getattr", "None"}

SCOPE_PREFIXES = ("einx._src.adapter.", "einx._src.tracer.optimizer.", "einx._src.adapter", "einx._src.frontend.impl.")


def in_scope(m):
    return any(m.name.startswith(x) for x in SCOPE_PREFIXES) and not m.name.endswith("adapter.ops")


def emitter_functions(p):
    m = p.module("tracer.compiler.python")
    out = []
    for f in p.funcs.values():
        if f.module is m and (f.name in ("to_code", "left_to_code", "slice_to_code") or f.name.endswith("to_code")):
            out.append(f)
    return m, out


def r1(p, rep):
    rep.rule("C17.R1", "emitter templates are straight-line", "T-TAB (keywords in emitted text)", floor=15)
    m, fns = emitter_functions(p)
    nodes = [(f.qualname, f.node, f.loc) for f in fns]
    # lambdas assigned to to_code
    for n in ast.walk(m.tree):
        if isinstance(n, ast.Assign) and isinstance(n.value, ast.Lambda) and any(isinstance(t, ast.Name) and t.id.endswith("to_code") for t in n.targets):
            f = p.func_containing(n)
            nodes.append((f"{f.qualname if f else m.name}:lambda@{norm(n.targets[0])}", n.value, f"{m.rel}:{n.lineno}"))
    if len(nodes) < 15:
        raise AnalysisError(f"anchor vanished: only {len(nodes)} to_code emitters found in tracer/compiler/python")
    for q, node, site in nodes:
        words = []
        for n in ast.walk(node):
            if isinstance(n, ast.Constant) and isinstance(n.value, str):
                par = getattr(n, "_parent", None)
                if isinstance(par, ast.Expr):
                    continue
                # text inside assert messages of the *compiler* is not emitted; everything in a to_code body is
                words += re.findall(r"[A-Za-z_]+", n.value)
        bad = sorted(set(words) & FORBIDDEN_KW)
        rep.add("C17.R1", f"{q}:keywords", site, not bad, f"emits only {sorted(set(words) & ALLOWED_KW) or 'punctuation / names'}" if not bad else f"the emitter template contains the keyword(s) {bad}: generated code is no longer straight-line (loops / branches / comprehensions grow with the data)")


def _tracer_receiver(attr):
    """`.value` of a NamedTensor is a tracer, `.value` of an axis node is a length: decide by where the
    receiver comes from (text mentions a tensor, or it is bound by iterating over tensors)."""
    recv = attr.value
    text = norm(recv).lower()
    if ("tensor" in text or "coord" in text) and "expr" not in text:
        return True
    root = recv
    while isinstance(root, (ast.Attribute, ast.Subscript)):
        root = root.value
    if isinstance(root, ast.Name):
        for par in parents(attr):
            gens = par.generators if isinstance(par, (ast.ListComp, ast.SetComp, ast.GeneratorExp, ast.DictComp)) else []
            for g in gens:
                if any(isinstance(x, ast.Name) and x.id == root.id for x in ast.walk(g.target)) and (("tensor" in norm(g.iter).lower() and "expr" not in norm(g.iter).lower()) or norm(g.iter) in ("xs", "args")):
                    return True
            if isinstance(par, ast.For) and any(isinstance(x, ast.Name) and x.id == root.id for x in ast.walk(par.target)) and "tensor" in norm(par.iter).lower() and "expr" not in norm(par.iter).lower():
                return True
    return False


_TAINT = register_cache({})


def _tainted_names(p, f):
    """names of f (and enclosing functions) assigned from expressions that read an axis length"""
    if f is None:
        return set()
    if id(f.node) in _TAINT:
        return _TAINT[id(f.node)]
    names = set(_tainted_names(p, f.parent))
    _TAINT[id(f.node)] = names
    for _ in range(3):
        before = len(names)
        for n in walk_no_nested(f.node):
            if isinstance(n, ast.Assign) and len(n.targets) == 1 and isinstance(n.targets[0], ast.Tuple) and isinstance(n.value, ast.Name):
                # `size, i, j = best` where best is only ever a tuple display of that length: component by component
                defs = [a.value for a in walk_no_nested(f.node) if isinstance(a, ast.Assign) and any(isinstance(t, ast.Name) and t.id == n.value.id for t in a.targets)]
                tup = [d for d in defs if isinstance(d, ast.Tuple)]
                if tup and all(isinstance(d, ast.Tuple) or (isinstance(d, ast.Constant) and d.value is None) for d in defs) and all(len(d.elts) == len(n.targets[0].elts) for d in tup) and n.value.id not in f.params:
                    for k, t in enumerate(n.targets[0].elts):
                        if any(_size_expr(d.elts[k], names - {n.value.id}) is not None for d in tup):
                            for x in ast.walk(t):
                                if isinstance(x, ast.Name) and isinstance(x.ctx, ast.Store):
                                    names.add(x.id)
                    continue
            if isinstance(n, ast.Assign) and _size_expr(n.value, names) is not None:
                for t in n.targets:
                    for x in ast.walk(t):
                        if isinstance(x, ast.Name) and isinstance(x.ctx, ast.Store):
                            names.add(x.id)
            elif isinstance(n, (ast.For,)) and _size_expr(n.iter, names) is not None:
                for x in ast.walk(n.target):
                    if isinstance(x, ast.Name):
                        names.add(x.id)
        if len(names) == before:
            break
    return names


def _size_expr(e, tainted=()):
    """Does the expression read an axis length?  `.shape` (not under len()), `.value` of an axis node,
    or a local name derived from those."""
    for n in ast.walk(e):
        par = getattr(n, "_parent", None)
        under_len = isinstance(par, ast.Call) and isinstance(par.func, ast.Name) and par.func.id in ("len", "id", "type", "isinstance")
        if isinstance(n, ast.Attribute) and n.attr in ("shape", "value"):
            if under_len:
                continue  # len(x.shape) is a rank
            if n.attr == "value" and _tracer_receiver(n):
                continue
            if _is_one_test(par, n):
                continue  # `x.value == 1` / `!= 1` is the allowed kind of size dependence
            return n
        if isinstance(n, ast.Name) and isinstance(n.ctx, ast.Load) and n.id in tainted and not under_len:
            # projections that are not lengths: <tainted>[i].name / .ndim / .expr
            up, cur = par, n
            proj = None
            while isinstance(up, (ast.Subscript, ast.Attribute)) and getattr(up, "value", None) is cur:
                if isinstance(up, ast.Attribute):
                    proj = up.attr
                cur, up = up, getattr(up, "_parent", None)
            if proj in ("ndim", "name", "expr", "begin_pos", "end_pos"):
                continue
            return n
    return None


def _is_one_test(par, n):
    return isinstance(par, ast.Compare) and len(par.ops) == 1 and isinstance(par.ops[0], (ast.Eq, ast.NotEq)) and par.left is n and isinstance(par.comparators[0], ast.Constant) and par.comparators[0].value in (0, 1)


# (module suffix, bound with names replaced by what they are, fact that must guard the loop or None) -> reason.
# Structural keys: neither the name of the enclosing function nor of a variable takes part, so extracting the loop into
# a helper or renaming keeps the entry, and a different size-bounded loop in the same module does not match it.
RANGE_TABLE = {
    ("elementary_from_classical", "<loop element>.shape[0]", "<loop element>.ndim == 1"): "number of components of a 1-D coordinate vector = number of bracketed target axes (fixed by the description through the stage-3 equation), not a data length",
}
# a bound that is the length of a *bracketed* axis of a coordinate expression (selected through a function that tests
# for brackets, `_expr_to_axis`): the number of bracketed target axes, fixed by the description
BRACKETED_AXIS_LENGTH = ("decomposednamedtensor_from_classical", "length of the bracketed coordinate axis = number of bracketed target axes (fixed by the description through the stage-3 equation), not a data length")


def _selects_bracketed_axis(p, f, a):
    from . import ir

    names, _ = ir.derive(f.node, a)
    for nm in names:
        r = p.resolve_chain(f.module, [nm])
        if r and r[0] == "func":
            # the selector itself or what it is written in terms of (a helper / a small record class)
            for g in common.with_helpers(p, r[1], depth=2):
                body = " ".join(norm(st) for st in g.node.body)
                if "is_in_brackets" in body or "Brackets" in body:
                    return True
    return False


def _range_exempt(f, call, a, p=None):
    if p is not None and f.module.name.endswith(BRACKETED_AXIS_LENGTH[0]) and _selects_bracketed_axis(p, f, a):
        return BRACKETED_AXIS_LENGTH[1]
    key = _anon(f, a)
    for (mod, ex, guard), reason in RANGE_TABLE.items():
        if f.module.name.endswith(mod) and key == ex:
            if guard is None:
                return reason
            facts = common.cfg_of(f).guards_of_ast(call)
            for t, pol in facts:
                pos = common.as_positive(t, pol)
                if pos is not None and getattr(t, "_parent", None) is not None and _anon(f, t) == guard and pol:
                    return reason
    return None


def p_is_local(f, name):
    return any(isinstance(x, ast.Name) and x.id == name and isinstance(x.ctx, ast.Store) for x in walk_no_nested(f.node))


def _anon(f, expr, depth=0):
    """the bound of a range() with its names replaced by what they are (loop element / parameter / comprehension
    variable / a local's own definition, two levels deep): the table is keyed by this, so renaming a variable neither
    loses nor gains an exemption"""
    comp_vars = {t.id for c in ast.walk(expr) if isinstance(c, ast.comprehension) for t in ast.walk(c.target) if isinstance(t, ast.Name)}

    class R(ast.NodeTransformer):
        def visit_Name(self, n):
            if n.id in comp_vars:
                return ast.Name(id="<v>", ctx=ast.Load())
            loop = getattr(expr, "_parent", None)
            while loop is not None and loop is not f.node:
                if isinstance(loop, ast.For) and any(isinstance(t, ast.Name) and t.id == n.id for t in ast.walk(loop.target)):
                    return ast.Name(id="<loop element>", ctx=ast.Load())
                loop = getattr(loop, "_parent", None)
            if n.id in f.params:
                return ast.Name(id="<param>", ctx=ast.Load())
            defs = [a for a in walk_no_nested(f.node) if isinstance(a, ast.Assign) and len(a.targets) == 1 and isinstance(a.targets[0], ast.Name) and a.targets[0].id == n.id]
            if len(defs) == 1 and depth < 2:
                return ast.Name(id="(" + _anon(f, defs[0].value, depth + 1) + ")", ctx=ast.Load())
            return ast.Name(id="<local>", ctx=ast.Load()) if defs or p_is_local(f, n.id) else n  # globals / builtins keep their names

    clone = ast.parse(norm(expr), mode="eval").body
    return norm(R().visit(clone))


def _tri(vals):
    """False if any is False (size-derived), True if all are True, else None (unknown)."""
    if any(v is False for v in vals):
        return False
    if all(v is True for v in vals):
        return True
    return None


def _rank_like(p, f, e, depth=0):
    """int constants, len(...), .ndim, arithmetic of those, names all of whose definitions are rank-like, parameters named like ranks."""
    if isinstance(e, ast.Constant) and isinstance(e.value, int):
        return True
    if isinstance(e, ast.Call) and isinstance(e.func, ast.Name) and e.func.id == "len":
        return True
    if isinstance(e, ast.Attribute) and e.attr == "ndim":
        return True
    if isinstance(e, ast.BinOp):
        return _tri([_rank_like(p, f, e.left, depth), _rank_like(p, f, e.right, depth)])
    if isinstance(e, ast.IfExp):
        return _tri([_rank_like(p, f, e.body, depth), _rank_like(p, f, e.orelse, depth)])
    if isinstance(e, ast.Name) and depth < 3:
        defs = [n.value for n in walk_no_nested(f.node) if isinstance(n, ast.Assign) and any(isinstance(t, ast.Name) and t.id == e.id for t in n.targets)]
        if defs:
            return _tri([_rank_like(p, f, d, depth + 1) for d in defs])
        g = f
        while g is not None:
            if e.id in g.params:
                return None  # parameter: unknown
            defs = [n.value for n in walk_no_nested(g.node) if isinstance(n, ast.Assign) and any(isinstance(t, ast.Name) and t.id == e.id for t in n.targets)]
            if defs:
                return _tri([_rank_like(p, g, d, depth + 1) for d in defs])
            g = g.parent
        return None
    return False if _size_expr(e) is not None else None


def r2(p, rep):
    rep.rule("C17.R2", "no trace-time iteration is bounded by an axis length", "T-TAINT (SIZE -> iteration bounds)", floor=20)
    n_range = 0
    for f in p.funcs.values():
        if not in_scope(f.module):
            continue
        for n in walk_no_nested(f.node):
            site = f"{f.module.rel}:{getattr(n, 'lineno', 0)}"
            if isinstance(n, ast.Call) and isinstance(n.func, ast.Name) and n.func.id == "range" and not p.is_local(f.node, "range"):
                n_range += 1
                for a in n.args:
                    s = _size_expr(a, _tainted_names(p, f))
                    key = f"{f.qualname}:range({norm(a)[:40]})"
                    if s is not None:
                        tab = _range_exempt(f, n, a, p)
                        if tab:
                            rep.exempt("C17.R2", key, site, tab)
                        else:
                            rep.violation("C17.R2", key, site, f"`range({norm(a)})` iterates over an axis length while tracing: the number of emitted backend calls grows with the tensor size")
                        continue
                    rl = _rank_like(p, f, a)
                    tab = _range_exempt(f, n, a, p)
                    if rl is False and tab:
                        rep.exempt("C17.R2", key, site, tab)
                    elif rl is False:
                        rep.violation("C17.R2", key, site, f"`range({norm(a)})` is bounded by a value derived from an axis length")
                    else:
                        rep.ok("C17.R2", key, site, "bounded by a rank / count of expression children" if rl else "bounded by a parameter that carries a rank (not derived from .shape/.value in this function)", nontrivial=True)
            elif isinstance(n, ast.BinOp) and isinstance(n.op, ast.Mult):
                # sequence repetition [x] * n
                for seq, cnt in ((n.left, n.right), (n.right, n.left)):
                    if isinstance(seq, (ast.List, ast.Tuple, ast.Constant)) and not (isinstance(seq, ast.Constant) and not isinstance(seq.value, str)):
                        s = _size_expr(cnt)
                        if s is not None:
                            rep.violation("C17.R2", f"{f.qualname}:repeat({norm(n)[:40]})", site, f"sequence repetition `{norm(n)}` has an axis length as count")
                        else:
                            rep.ok("C17.R2", f"{f.qualname}:repeat({norm(n)[:40]})", site, "repetition count is a rank", nontrivial=False)
            elif isinstance(n, ast.While):
                s = _size_expr(n.test)
                if s is not None:
                    rep.violation("C17.R2", f"{f.qualname}:while({norm(n.test)[:40]})", site, "while-loop bounded by an axis length at trace time")
            elif isinstance(n, ast.Call):
                ch = attr_chain(n.func)
                if ch and len(ch) == 2 and ch[0] in ("np", "_np", "numpy") and ch[1] in ("arange", "ones", "zeros", "full", "eye", "linspace", "repeat", "tile", "empty", "indices"):
                    r = p.resolve_chain(f.module, [ch[0]], f.node)
                    if r and r[0] == "external" and r[1] == "numpy":
                        s = any(_size_expr(a) is not None for a in n.args)
                        rep.add("C17.R2", f"{f.qualname}:np.{ch[1]}", site, not s, "trace-time numpy constant of rank-sized shape" if not s else f"`{norm(n)[:60]}` materialises an array whose size is an axis length at trace time (it becomes a constant of the generated code)")
    if n_range < 20:
        raise AnalysisError(f"only {n_range} range() sites found in the lowering code")


# (module suffix, selecting function, shape of its argument) -> reason   (structural key: survives renames / extraction)
ORDER_TABLE = {
    ("adapter.decomposednamedtensor_from_classical", "argmax", "[a.value for a in S]"): "np.argmax over the lengths of one output axis across the inputs, which are all in {1, n}: it selects 'the input that is not 1' - a 1-test in disguise",
}


def _order_shape(node):
    a = node.args[0] if node.args else None
    if isinstance(a, (ast.ListComp, ast.GeneratorExp)) and isinstance(a.elt, ast.Attribute) and a.elt.attr == "value" and isinstance(a.elt.value, ast.Name) and isinstance(a.generators[0].target, ast.Name) and a.elt.value.id == a.generators[0].target.id and not a.generators[0].ifs:
        return "[a.value for a in S]"
    return None


def r3(p, rep):
    rep.rule("C17.R3", "size-dependent decisions are 1-tests", "T-TAINT (SIZE -> branch conditions / selection)", floor=15)
    n = 0
    for f in p.funcs.values():
        if not in_scope(f.module):
            continue
        for node in walk_no_nested(f.node):
            site = f"{f.module.rel}:{getattr(node, 'lineno', 0)}"
            if isinstance(node, ast.Compare):
                sides = [node.left] + list(node.comparators)
                direct = any(_size_expr(s) is not None for s in sides)
                # a local that holds a length computed by a helper of this module (`size = _contraction_size(..)`)
                via_helper = (not direct) and any(isinstance(o, (ast.Lt, ast.LtE, ast.Gt, ast.GtE)) for o in node.ops) and any(isinstance(x, ast.Name) and x.id in _helper_sizes(p, f) for s in sides for x in ast.walk(s))
                if not direct and not via_helper:
                    continue
                n += 1
                ordering = any(isinstance(o, (ast.Lt, ast.LtE, ast.Gt, ast.GtE)) for o in node.ops)
                key = f"{f.qualname}:cmp({norm(node)[:50]})"
                if not ordering:
                    rep.ok("C17.R3", key, site, "equality / membership test on a length or shape")
                elif confined_to_raise(node, f.node) or isinstance(enclosing(node, ast.stmt), ast.Assert) or _cond_only_raises(node):
                    rep.ok("C17.R3", key, site, "ordering comparison only decides whether an error is raised")
                else:
                    rep.violation("C17.R3", key, site, f"`{norm(node)}` orders / thresholds an axis length: the structure of the generated code then depends on sizes other than 'is it 1'")
            elif isinstance(node, ast.BinOp) and isinstance(node.op, (ast.Mod, ast.FloorDiv)):
                tn = _tainted_names(p, f)
                if _size_expr(node.right, tn) is not None or _size_expr(node.left, tn) is not None:
                    # arithmetic producing a *shape value* (e.g. splitting lengths) is fine; a decision is not
                    par = node
                    decides = False
                    for up in parents(node):
                        if isinstance(up, ast.Compare):
                            decides = True
                        if isinstance(up, (ast.If, ast.IfExp, ast.While)) and any(x is par for x in ast.walk(up.test)):
                            decides = True
                        if isinstance(up, ast.comprehension) and any(par is x for c in up.ifs for x in ast.walk(c)):
                            decides = True
                        if isinstance(up, ast.stmt):
                            break
                    if isinstance(node.left, ast.Constant) and isinstance(node.left.value, str):
                        continue
                    n += 1
                    key = f"{f.qualname}:mod({norm(node)[:50]})"
                    if decides and not confined_to_raise(node, f.node):
                        rep.violation("C17.R3", key, site, f"`{norm(node)}` feeds a branch condition: whether code is emitted depends on divisibility of / by an axis length")
                    else:
                        rep.ok("C17.R3", key, site, "length arithmetic (value), not a decision")
            elif isinstance(node, (ast.DictComp, ast.Dict)) or (isinstance(node, ast.Subscript) and isinstance(node.value, ast.Name)):
                # a table keyed by an axis LENGTH: two axes of equal length share one entry, so what is emitted depends
                # on which lengths happen to coincide
                tn = _tainted_names(p, f)
                keys = [node.key] if isinstance(node, ast.DictComp) else ([k for k in node.keys if k is not None] if isinstance(node, ast.Dict) else [])
                if isinstance(node, ast.Subscript):
                    defs = [a.value for a in walk_no_nested(f.node) if isinstance(a, ast.Assign) and any(isinstance(t, ast.Name) and t.id == node.value.id for t in a.targets)]
                    if defs and all(isinstance(d, (ast.Dict, ast.DictComp)) or (isinstance(d, ast.Call) and norm(d.func) in ("dict", "defaultdict", "collections.defaultdict")) for d in defs):
                        keys = [node.slice]
                for k in keys:
                    if _size_expr(k, tn) is not None and not isinstance(k, ast.Constant):
                        n += 1
                        rep.violation("C17.R3", f"{f.qualname}:key({norm(k)[:40]})", site, f"`{norm(k)}` (an axis length) is used as a dictionary key: axes that happen to have equal lengths share one entry, so the emitted calls depend on sizes other than 'is it 1'")
            elif isinstance(node, ast.Call):
                ch = attr_chain(node.func)
                fn = ch[-1] if ch else None
                if fn in ("max", "min", "sorted", "argmax", "argmin", "argsort") and (len(ch) == 1 or ch[0] in ("np", "_np", "numpy")):
                    tn = _tainted_names(p, f)
                    key_names = set()
                    for k in node.keywords:
                        if k.arg == "key":
                            key_names |= {x.id for x in ast.walk(k.value) if isinstance(x, ast.Name)}
                    if any(_size_expr(a, tn) is not None for a in node.args) or any(k.arg == "key" and _size_expr(k.value, tn) is not None for k in node.keywords) or (key_names & tn):
                        n += 1
                        key = f"{f.qualname}:{fn}({norm(node.args[0])[:40] if node.args else ''})"
                        tab = next((r for (q, name, shape), r in ORDER_TABLE.items() if f.module.name.endswith(q) and name == fn and shape == _order_shape(node)), None)
                        if tab:
                            rep.exempt("C17.R3", key, site, tab)
                        elif confined_to_raise(node, f.node):
                            rep.ok("C17.R3", key, site, "only reaches a raise")
                        else:
                            rep.violation("C17.R3", key, site, f"`{norm(node)[:70]}` selects / orders by axis length: which backend calls are emitted then depends on relative sizes")
    if n < 15:
        raise AnalysisError(f"only {n} size-dependent decisions found in the lowering code")


def _returns_size(p, g, depth=0):
    """does the project function g return a value computed from axis lengths (a product / sum / max of .value or .shape)?"""
    if depth > 2 or not isinstance(g.node, (ast.FunctionDef, ast.AsyncFunctionDef)):
        return False
    tn = _tainted_names(p, g)
    for r in walk_no_nested(g.node):
        if isinstance(r, ast.Return) and r.value is not None and not isinstance(r.value, (ast.Tuple, ast.List, ast.Dict)):
            if _size_expr(r.value, tn) is not None:
                return True
    return False


def _helper_sizes(p, f):
    """locals of f bound (only) to the result of a project function that returns a length"""
    cache = p.__dict__.setdefault("_c17_helper_sizes", {})
    if id(f.node) in cache:
        return cache[id(f.node)]
    out = set()
    for a in walk_no_nested(f.node):
        if isinstance(a, ast.Assign) and len(a.targets) == 1 and isinstance(a.targets[0], ast.Name) and isinstance(a.value, ast.Call):
            r = resolve_callee(p, a.value, f.module)
            if r and r[0] == "func" and in_scope(r[1].module) and _returns_size(p, r[1]):
                out.add(a.targets[0].id)
    cache[id(f.node)] = out
    return out


def _cond_only_raises(node):
    """the comparison is (part of) the test of an `if` whose body always raises"""
    for up in parents(node):
        if isinstance(up, ast.If) and any(x is node for x in ast.walk(up.test)):
            return common.block_always_raises(up.body)
        if isinstance(up, ast.stmt):
            return False
    return False


def run(p, rep, tier):
    r1(p, rep)
    r2(p, rep)
    r3(p, rep)
    from . import c04

    rep.rule("C04.R4", "every IR node class has an emitter branch", "T-EXH", floor=1)
    f, ch, branches = c04.eval_app_branches(p)
    common.exhaustiveness(p, rep, "C04.R4", funcs=[f])
    rep.info["undecided"] = "that two size assignments agreeing on the length-1 axes give token-identical text for every description (only the structural sources of size dependence are excluded)"
