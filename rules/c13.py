"""C13 - tensor factories run once per call, with the resolved shape, only at run time.

Decided clauses:
 R1 a user value (tensor or factory) is never invoked or inspected beyond type/shape/signature while compiling
 R2 graph=True never runs the compiled function
 R3 factory output is type- and shape-checked *before* it is cast to a trusted tensor
 R4 tracing happens under depend_on(inputs), so the factory call is a node of the compiled function
 R5 the traced factory call passes exactly [shape] positionally and only keywords the factory declares
 R6 factory tracers carry no shape into the solver and are keyed by type and signature (with C06.R1)
"""

from __future__ import annotations

import ast

from sa.cfg import CFG
from sa.core import AnalysisError, attr_chain, chain_root, enclosing, norm, parents, resolve_callee, src, walk_no_nested

from . import backends, c03, common

ALLOWED_VALUE_CONSUMERS = {"type", "callable", "isinstance", "issubclass", "_is_scalar", "_get_signature", "is_supported_tensor", "get_shape", "len", "id", "repr", "str"}


def r1(p, rep):
    rep.rule("C13.R1", "user values are only classified (type / shape / signature) while compiling, never called", "T-EFF / T-TAINT (USERDATA)", floor=6)
    f = p.func("_to_tracer", "frontend.api")
    param = f.params[0]

    def value_uses(fn, is_value, depth=0):
        """[(site node, ok, why)] for every use of the user value inside fn.  `is_value(node)` recognises the value
        expression (x.value or a local alias / a helper parameter)."""
        out = []
        aliases = set()
        for n in walk_no_nested(fn.node):
            if isinstance(n, ast.Assign) and len(n.targets) == 1 and isinstance(n.targets[0], ast.Name) and is_value(n.value):
                aliases.add(n.targets[0].id)

        def isv(n):
            return is_value(n) or (isinstance(n, ast.Name) and n.id in aliases and isinstance(n.ctx, ast.Load))

        for n in walk_no_nested(fn.node):
            if not isv(n):
                continue
            par = getattr(n, "_parent", None)
            if isinstance(par, ast.Assign) and par.value is n:
                continue  # the aliasing assignment itself
            ok, why = False, f"`{norm(par)[:60]}`"
            if isinstance(par, ast.Call) and n in par.args:
                callee = attr_chain(par.func)
                cname = callee[-1] if callee else None
                if cname in ALLOWED_VALUE_CONSUMERS:
                    ok, why = True, f"argument of {cname}()"
                elif cname == "getattr" and par.args[0] is n and len(par.args) >= 2 and isinstance(par.args[1], ast.Constant) and par.args[1].value in ("shape", "dtype", "ndim"):
                    ok, why = True, f"only .{par.args[1].value} is read (getattr form)"
                else:
                    r = resolve_callee(p, par, fn.module)
                    if r and r[0] == "func" and r[1].module is fn.module and depth < 2:
                        h = r[1]
                        idx = par.args.index(n)
                        hp = h.params[idx] if idx < len(h.params) else None
                        if hp:
                            sub = value_uses(h, lambda m, hp=hp: isinstance(m, ast.Name) and m.id == hp and isinstance(m.ctx, ast.Load), depth + 1)
                            ok = all(o for _, o, _ in sub)
                            why = f"passed to helper {h.name}: " + "; ".join(sorted({w for _, _, w in sub}))[:120]
            elif isinstance(par, ast.Attribute) and par.attr in ("shape", "dtype", "ndim"):
                ok, why = True, f"only .{par.attr} is read"
            elif isinstance(par, ast.Call) and par.func is n:
                ok, why = False, "the user value is CALLED at trace time (a tensor factory would run while compiling / once per compilation instead of once per call)"
            out.append((n, ok, why))
        return out

    uses_ = value_uses(f, lambda n: isinstance(n, ast.Attribute) and n.attr == "value" and isinstance(n.value, ast.Name) and n.value.id == param)
    for n, ok, why in uses_:
        rep.add("C13.R1", f"{f.qualname}:use({why[:50]})", f"{f.module.rel}:{n.lineno}", ok, why)
    if len(uses_) < 4:
        raise AnalysisError(f"unrecognised idiom: _to_tracer uses {param}.value only {len(uses_)} times")
    # _get_signature: the function object only reaches inspect.signature
    g = p.func("_get_signature", "frontend.api")
    gp = g.params[0]
    for n in walk_no_nested(g.node):
        if isinstance(n, ast.Name) and n.id == gp and isinstance(n.ctx, ast.Load):
            par = getattr(n, "_parent", None)
            r = p.resolve_expr(g.module, par.func, g.node) if isinstance(par, ast.Call) and n in par.args else None
            ok = bool(r and r[0] == "external" and r[1] == "inspect.signature")
            rep.add("C13.R1", f"{g.qualname}:use({norm(par)[:40]})", f"{g.module.rel}:{n.lineno}", ok, "only inspect.signature() sees the factory" if ok else f"factory object used by `{norm(par)[:60]}`")
    # the api wrappers: tensor_args only go to registry.get and the compiled function
    for f in c03.api_inners(p):
        calls, fn_names, code_names, bound = c03.compiled_function_calls(p, f)
        targs = None
        for n in walk_no_nested(f.node):
            if isinstance(n, ast.Assign) and isinstance(n.value, ast.Call) and norm(n.value.func) == c03.splitter(p)[1] and isinstance(n.targets[0], ast.Tuple):
                targs = n.targets[0].elts[-1].id
        if targs is None:
            raise AnalysisError(f"unrecognised idiom: {f.qualname} does not unpack the result of the argument splitter")
        compiled_params = {}
        for c in calls:
            hh = getattr(c, "_helper", None)
            if hh is not None:
                compiled_params.setdefault(id(hh[0]), set()).add(hh[2])

        def uses(fn, name, depth=0):
            """[(node, ok, why)] for every load of `name` in fn; passing it on to a helper of the same module is
            followed into the helper (depth <= 2)."""
            out = []
            for n in walk_no_nested(fn.node):
                if isinstance(n, ast.Name) and n.id == name and isinstance(n.ctx, ast.Load):
                    par = getattr(n, "_parent", None)
                    ctx = par if not isinstance(par, ast.Starred) else getattr(par, "_parent", None)
                    ok, why = False, norm(ctx)[:60]
                    if fn is f and depth == 0:
                        # after the compiled function has returned, tracing and caching are over: looking at the
                        # arguments there (e.g. to compare the result with them) cannot leak them into the graph
                        fcfg = common.cfg_of(f)
                        un = fcfg.node_for(n)
                        if un is not None and any(fcfg.node_for(c) is not None and fcfg.node_for(c) is not un and fcfg.dominates(fcfg.node_for(c), un) for c in calls if getattr(c, "_helper", None) is None):
                            out.append((n, True, "used after the compiled function has run"))
                            continue
                    if isinstance(ctx, ast.Call):
                        callee = norm(ctx.func)
                        if (callee in fn_names and fn is f) or callee in compiled_params.get(id(fn), ()):
                            ok, why = True, "arguments of the compiled function (run time)"
                        elif callee.endswith("registry.get"):
                            ok, why = True, "backend resolution (types only)"
                        else:
                            r = resolve_callee(p, ctx, fn.module)
                            if r and r[0] == "func" and r[1].module is fn.module and depth < 2 and not isinstance(par, ast.Starred):
                                h = r[1]
                                idx = next((i for i, a in enumerate(ctx.args) if a is n), None)
                                pname = h.params[idx] if idx is not None and idx < len(h.params) else next((k.arg for k in ctx.keywords if k.value is n), None)
                                if pname:
                                    sub = uses(h, pname, depth + 1)
                                    ok = all(o for _, o, _ in sub)
                                    why = f"passed to helper {h.name}: " + ("; ".join(sorted({w for _, _, w in sub})) or "unused")
                    out.append((n, ok, why))
            return out

        for n, ok, why in uses(f, targs):
            rep.add("C13.R1", f"{f.qualname}:use({why[:40]})", f"{f.module.rel}:{n.lineno}", ok, why if ok else f"user tensors reach `{why}` before/outside the compiled function")
        # nothing user-derived enters the cache key: the cache call's arguments are the traced args/kwargs
        for nm, (assign, idx) in bound.items():
            if idx == 0:
                call = assign.value
                names = {x.id for x in ast.walk(call) if isinstance(x, ast.Name)}
                rep.add("C13.R1", f"{f.qualname}:cache-key", f"{f.module.rel}:{call.lineno}", targs not in names, "cache key built from tracers and options only" if targs not in names else f"{targs} (the user's tensors) is part of the cache call")


def r2(p, rep):
    for f in c03.api_inners(p):
        calls, fn_names, code_names, bound = c03.compiled_function_calls(p, f)
        gparam = "graph"
        if gparam not in f.params:
            raise AnalysisError(f"unrecognised idiom: {f.qualname} has no `graph` parameter")
        cfg_f = CFG(f.node)
        for call in calls:
            ok = True
            for g, c in c03.exec_sites(call, f):
                cfg = cfg_f if g is f else CFG(g.node)
                # name of the `graph` flag where the compiled function is really called
                names = {gparam} if g is f else set()
                if g is not f:
                    for i, a in enumerate(call.args):
                        if isinstance(a, ast.Name) and a.id == gparam and i < len(g.params):
                            names.add(g.params[i])
                    for k in call.keywords:
                        if isinstance(k.value, ast.Name) and k.value.id == gparam and k.arg:
                            names.add(k.arg)
                nodes = [n for n in cfg.nodes if n.kind == "stmt" and n.ast is not None and any(x is c for x in ast.walk(n.ast))]
                if not nodes:
                    nodes = [n for n in cfg.nodes if n.kind == "stmt" and n.ast is not None and norm(c) in norm(n.ast)]
                site_ok = bool(nodes)
                for cn in nodes:
                    facts = cfg.guards(cn) + list(_expr_guards(c))
                    if not any(isinstance(t, ast.Name) and t.id in names and pol is False for t, pol in facts):
                        site_ok = False
                # the guard may also sit at the helper's call site in the wrapper itself
                if not site_ok and g is not f:
                    facts = cfg_f.guards_of_ast(call)
                    site_ok = any(isinstance(t, ast.Name) and t.id == gparam and pol is False for t, pol in facts)
                ok = ok and site_ok
            rep.add(
                "C13.R2",
                f"{f.qualname}:call({c03.callee_label(call)})",
                f"{f.module.rel}:{call.lineno}",
                ok,
                "the compiled function only runs on the false edge of `if graph`" if ok else "the compiled function is executed even when graph=True (runs factories and in-place updates although only the source text was requested)",
            )


def _expr_guards(node):
    from sa.cfg import expression_guards

    return expression_guards(node)


def _is_assert_fold(h):
    """`def h(value, checks): result = value; for cond, msg in checks: result = <...>.assert_(result, cond, msg); return result`"""
    if len(h.params) != 2 or not isinstance(h.node, ast.FunctionDef):
        return False
    v, L = h.params
    body = [st for st in h.node.body if not (isinstance(st, ast.Expr) and isinstance(st.value, ast.Constant))]
    acc = v
    i = 0
    if body and isinstance(body[0], ast.Assign) and len(body[0].targets) == 1 and isinstance(body[0].targets[0], ast.Name) and isinstance(body[0].value, ast.Name) and body[0].value.id == v:
        acc = body[0].targets[0].id
        i = 1
    if len(body) != i + 2:
        return False
    loop, ret = body[i], body[i + 1]
    if not (isinstance(loop, ast.For) and isinstance(loop.iter, ast.Name) and loop.iter.id == L and isinstance(loop.target, ast.Tuple) and len(loop.target.elts) == 2 and len(loop.body) == 1):
        return False
    c_, m_ = (e.id if isinstance(e, ast.Name) else None for e in loop.target.elts)
    st = loop.body[0]
    if not (isinstance(st, ast.Assign) and len(st.targets) == 1 and isinstance(st.targets[0], ast.Name) and st.targets[0].id == acc and isinstance(st.value, ast.Call)):
        return False
    ch = attr_chain(st.value.func)
    a = st.value.args
    if not (ch and ch[-1] == "assert_" and len(a) >= 2 and isinstance(a[0], ast.Name) and a[0].id == acc and isinstance(a[1], ast.Name) and a[1].id == c_):
        return False  # an assert attached to anything but the running result drops the earlier ones from the graph
    return isinstance(ret, ast.Return) and isinstance(ret.value, ast.Name) and ret.value.id == acc


def _assert_calls(p, f):
    """assignments `v = <...>.assert_(v, cond, ...)` and `v = <...>.cast(v, ...)` in f"""
    out = []
    for n in walk_no_nested(f.node):
        # `return cast(v, ...)` is the last step of the pipeline of v as well
        if isinstance(n, ast.Return) and isinstance(n.value, ast.Call) and n.value.args and isinstance(n.value.args[0], ast.Name):
            chr_ = attr_chain(n.value.func)
            if chr_ and chr_[-1] == "cast":
                fake = ast.copy_location(ast.Assign(targets=[ast.Name(id=n.value.args[0].id, ctx=ast.Store())], value=n.value), n)
                fake._parent = getattr(n, "_parent", None)
                fake._stands_for = n
                out.append((n, n.value.args[0].id, "cast", None))
                continue
        # `v = _assert_all(v, [(cond, msg), ...])`: a helper that folds assert_ over a list of checks, each chained on the
        # previous one's result; the checks may be collected in a local list first (appends, possibly conditional)
        if isinstance(n, ast.Assign) and isinstance(n.value, ast.Call) and len(n.targets) == 1 and isinstance(n.targets[0], ast.Name) and len(n.value.args) == 2 and isinstance(n.value.args[0], ast.Name) and n.value.args[0].id == n.targets[0].id:
            r = resolve_callee(p, n.value, f.module)
            if r and r[0] == "func" and _is_assert_fold(r[1]):
                var = n.targets[0].id
                L = n.value.args[1]
                elements = []
                if isinstance(L, (ast.List, ast.Tuple)):
                    elements = [(n, e) for e in L.elts]
                elif isinstance(L, ast.Name):
                    for s_ in walk_no_nested(f.node):
                        if isinstance(s_, ast.Assign) and any(isinstance(t, ast.Name) and t.id == L.id for t in s_.targets) and isinstance(s_.value, (ast.List, ast.Tuple)):
                            elements += [(n, e) for e in s_.value.elts]
                        if isinstance(s_, ast.Expr) and isinstance(s_.value, ast.Call) and isinstance(s_.value.func, ast.Attribute) and s_.value.func.attr == "append" and isinstance(s_.value.func.value, ast.Name) and s_.value.func.value.id == L.id and s_.value.args:
                            elements.append((s_, s_.value.args[0]))
                for node_stmt, e in elements:
                    cnd = e.elts[0] if isinstance(e, (ast.Tuple, ast.List)) and e.elts else e
                    cond = norm(cnd)
                    what = "type" if "isinstance(" in cond else ("shape" if ".shape" in cond and "equal(" in cond else ("arity" if "len(" in cond else None))
                    out.append((node_stmt, var, "assert_", what))
                continue
        if isinstance(n, ast.Assign) and isinstance(n.value, ast.Call) and len(n.targets) == 1 and isinstance(n.targets[0], ast.Name):
            ch = attr_chain(n.value.func)
            # the cast ends the pipeline of the checked variable: its result may get another name (`out = cast(v, ..)`)
            if ch and ch[-1] in ("assert_", "cast") and n.value.args and isinstance(n.value.args[0], ast.Name) and (n.value.args[0].id == n.targets[0].id or ch[-1] == "cast"):
                kind = ch[-1]
                what = None
                if kind == "assert_" and len(n.value.args) >= 2:
                    cnode = n.value.args[1]
                    if isinstance(cnode, ast.Name):
                        # condition bound to a local first: has_expected_shape = equal(tuple(x.shape), expected)
                        defs = [a.value for a in walk_no_nested(f.node) if isinstance(a, ast.Assign) and any(isinstance(t, ast.Name) and t.id == cnode.id for t in a.targets) and a.lineno <= n.lineno]
                        if defs:
                            cnode = defs[-1]
                    cond = norm(cnode)
                    if "isinstance(" in cond:
                        what = "type"
                    elif ".shape" in cond and "equal(" in cond:
                        what = "shape"
                    elif "len(" in cond:
                        what = "arity"
                out.append((n, n.value.args[0].id, kind, what))
    return out


def checked_before_trusted(p, rep, rid, f, require_type_guard=None, optional=False):
    """T-MPT: every cast of a pipeline variable to a trusted Tensor is dominated by a shape assert and a
    type assert on the same variable (the type assert may only be skipped under `<require_type_guard> is not None`)."""
    cfg = CFG(f.node)
    items = _assert_calls(p, f)
    casts = [(n, v) for n, v, kind, what in items if kind == "cast" and "Tensor" in norm(n.value)]
    if not casts:
        if optional:
            return False
        raise AnalysisError(f"unrecognised idiom: no cast(<var>, ... Tensor ...) pipeline step in {f.qualname}")
    for cn, var in casts:
        cnode = cfg.node_for(cn)
        site = f"{f.module.rel}:{cn.lineno}"
        for need in ("shape", "type"):
            cands = [n for n, v, kind, what in items if v == var and kind == "assert_" and what == need]
            ok, why = False, f"no {need} assert on `{var}` before the cast"
            for a in cands:
                anode = cfg.node_for(a)
                if anode is None or cnode is None:
                    continue
                if cfg.dominates(anode, cnode):
                    common.thorough_paths(rep, f"{rid}:{f.name}:{var}:{need}", cfg, cfg.entry, cnode, [anode], dominator_verdict=True)
                    # the checked value must be the run-time value: no cast of var between entry and the assert
                    earlier_cast = [c for c, v2 in casts if v2 == var and cfg.dominates(cfg.node_for(c), anode) and c is not cn]
                    if earlier_cast:
                        why = f"the {need} assert runs after `{var}` was already cast (it compares the static shape with itself)"
                        continue
                    ok, why = True, f"{need} assert dominates the cast"
                    break
                # conditional assert: allowed only under the guard on its own parameter
                if require_type_guard and need == "type":
                    extra = [(norm(t), pol) for t, pol in cfg.guards(anode) if (norm(t), pol) not in [(norm(t2), p2) for t2, p2 in cfg.guards(cnode)]]
                    # ... that is, on the very type the assert would compare with: `if T is not None: assert_(v, isinstance(v, T))`
                    tnames = {y.id for y in ast.walk(a.value) if isinstance(y, ast.Name)} - {var}
                    gnames = [t_[: -len(" is not None")] for t_, pol_ in extra if pol_ and t_.endswith(" is not None")]
                    copies = {(norm(x.targets[0]), norm(x.value)) for x in walk_no_nested(f.node) if isinstance(x, ast.Assign) and len(x.targets) == 1 and isinstance(x.targets[0], ast.Name) and isinstance(x.value, ast.Name)}
                    main = [g_ for g_ in gnames if g_ in tnames]
                    # one fact, or the same fact once more under the name the value had before a plain copy (`T = T0`)
                    same = bool(main) and all(g_ == main[0] or (main[0], g_) in copies or (g_, main[0]) in copies for g_ in gnames)
                    if extra and len(gnames) == len(extra) and same and cfg.can_reach(anode, cnode):
                        ok, why = True, f"type assert skipped only when the expected type `{main[0]}` is None"
                        break
                    why = f"type assert is conditional on {extra}"
            rep.add(rid, f"{f.qualname}:{var}:{need}-checked-before-cast", site, ok, why)
        # and the cast comes last: no assert on var is dominated by the cast
        late = [a for a, v, kind, what in items if v == var and kind == "assert_" and what in ("shape", "type") and cfg.node_for(a) is not None and cfg.dominates(cnode, cfg.node_for(a))]
        rep.add(rid, f"{f.qualname}:{var}:cast-last", site, not late, "no check is placed after the cast" if not late else f"assert at line {late[0].lineno} runs on the already cast value (tautology)")
    return True


def r3(p, rep):
    rep.rule("C13.R3", "factory output is checked before it is trusted", "T-MPT (dominators on the value pipeline)", floor=3)
    f = common.inlined_view(p, p.func("_assert_output", "adapter.namedtensor_calltensorfactory"), "einx._src.adapter", keep_loops=True)
    # the type check may be written `if T is not None: assert_(..)` (a shared helper with an optional type): it is
    # skipped only when T - here always the factory's expected type - is None
    checked_before_trusted(p, rep, "C13.R3", f, require_type_guard="expected_type")
    # the checks happen exactly when the factory was called
    cfg = CFG(f.node)
    for n, v, kind, what in _assert_calls(p, f):
        facts = [(norm(t), pol) for t, pol in cfg.guards(cfg.node_for(n))]
        ok = facts == [("called", True)] or ("called", True) in facts
        rep.add("C13.R3", f"{f.qualname}:{kind}:{what}:under-called", f"{f.module.rel}:{n.lineno}", ok, f"guards {facts}")


def r4(p, rep):
    rep.rule("C13.R4", "tracing happens under depend_on(inputs)", "T-DOM (lexical with)", floor=1)
    f0 = p.func("_construct_graph", "frontend.api")
    found = []
    for g in common.with_helpers(p, f0):
        for n in walk_no_nested(g.node):
            # the traced operation: a call of a *parameter* with *args, **kwargs
            if isinstance(n, ast.Call) and isinstance(n.func, ast.Name) and n.func.id in g.params and any(isinstance(a, ast.Starred) for a in n.args) and any(k.arg is None for k in n.keywords):
                found.append((g, n))
    if not found:
        raise AnalysisError("unrecognised idiom: no func(*args, **kwargs) call reachable from _construct_graph")
    for f, c in found:
        w = enclosing(c, ast.With)
        ok = False
        if w is not None:
            for it in w.items:
                ce = it.context_expr
                if isinstance(ce, ast.Name):
                    # `scope = depend_on(*inputs)` bound first
                    ds = [a.value for a in walk_no_nested(f.node) if isinstance(a, ast.Assign) and any(isinstance(t, ast.Name) and t.id == ce.id for t in a.targets)]
                    ce = ds[0] if len(ds) == 1 else ce
                it = ast.withitem(context_expr=ce, optional_vars=it.optional_vars)
                r = resolve_callee(p, it.context_expr, f.module) if isinstance(it.context_expr, ast.Call) else None
                if r and r[0] == "func" and r[1].name == "depend_on":
                    # with the input tracers
                    ok = any(isinstance(a, ast.Starred) for a in it.context_expr.args)
        rep.add("C13.R4", f"{f0.qualname}:trace-call", f"{f.module.rel}:{c.lineno}", ok, "func(...) is traced inside `with tracer.depend_on(*input_tracers)`" if ok else "func(...) is traced outside depend_on: calls without tensor inputs (factories) are hoisted out of the compiled function")


def r5(p, rep):
    rep.rule("C13.R5", "the traced factory call passes [shape] and only declared keywords", "T-DER", floor=3)
    f = p.func("_call_tensorfactory", "adapter.namedtensor_calltensorfactory")
    calls = []
    for n in walk_no_nested(f.node):
        if isinstance(n, ast.Call):
            r = resolve_callee(p, n, f.module)
            if r and r[0] == "func" and r[1].qualname.endswith("signature.python::call"):
                calls.append(n)
    if len(calls) != 1:
        raise AnalysisError(f"unrecognised idiom: expected one traced python.call in _call_tensorfactory, found {len(calls)}")
    c = calls[0]
    site = f"{f.module.rel}:{c.lineno}"
    args = common.kwarg(c, "args") or (c.args[1] if len(c.args) > 1 else None)
    ok = isinstance(args, ast.List) and len(args.elts) == 1 and isinstance(args.elts[0], ast.Name)
    shape_var = args.elts[0].id if ok else None
    rep.add("C13.R5", f"{f.qualname}:args", site, ok, f"positional arguments {norm(args) if args is not None else None}")
    if shape_var:
        defs = [n.value for n in walk_no_nested(f.node) if isinstance(n, ast.Assign) and any(isinstance(t, ast.Name) and t.id == shape_var for t in n.targets)]
        ok2 = len(defs) == 1 and ".shape" in norm(defs[0]) and "tuple(" in norm(defs[0])
        rep.add("C13.R5", f"{f.qualname}:shape-derivation", site, ok2, f"{shape_var} = {[norm(d) for d in defs]}")
    kw = common.kwarg(c, "kwargs")
    # the keywords handed to the factory are filtered by what the factory declares
    ok3, why3 = False, "the traced call does not pass keywords filtered by the factory's declared parameters"
    if isinstance(kw, ast.Name):
        kdefs = [n for n in walk_no_nested(f.node) if isinstance(n, ast.Assign) and any(isinstance(t, ast.Name) and t.id == kw.id for t in n.targets)]
        cfg = CFG(f.node)
        cnode = cfg.node_for(c)
        for d in kdefs:
            v = d.value
            filtered = False
            if isinstance(v, ast.DictComp) and any(g.ifs for g in v.generators):
                # the filter with predicate helpers and locals written out must look at the factory's declared parameters
                cond = " ".join(norm(cfg.expand(i, cfg.node_for(d)) if cfg.node_for(d) is not None else i) for g in v.generators for i in g.ifs)
                filtered = ".parameters" in cond or "parameters[" in cond or "in parameters" in cond
            elif isinstance(v, ast.Call):
                r = resolve_callee(p, v, f.module)
                if r and r[0] == "func" and r[1].module is f.module:
                    body = " ".join(norm(st) for st in r[1].node.body)
                    filtered = ("parameters" in body and ".kind" in body) and ("if " in body)
                    passes_params = any("parameters" in norm(a) for a in v.args)
                    filtered = filtered and passes_params
            if isinstance(v, ast.Dict) and not v.keys:
                # built by a loop: `out = {}; for name, value in kwargs.items(): if accepts(parameters, name): out[name] = value`
                aliases = {t.id for a_ in walk_no_nested(f.node) if isinstance(a_, ast.Assign) and ".parameters" in norm(a_.value) for t in a_.targets if isinstance(t, ast.Name)}
                stores = [a_ for a_ in walk_no_nested(f.node) if isinstance(a_, ast.Assign) and any(isinstance(t, ast.Subscript) and isinstance(t.value, ast.Name) and t.value.id == kw.id for t in a_.targets)]
                def _guarded(a_):
                    for t, pol in cfg.guards_of_ast(a_):
                        txt = norm(t)
                        if ".parameters" in txt or any(isinstance(y, ast.Name) and y.id in aliases for y in ast.walk(t)):
                            return True
                    return False
                filtered = bool(stores) and all(_guarded(a_) for a_ in stores)
            if filtered and cfg.dominates(cfg.node_for(d), cnode):
                # no later unfiltered re-definition reaches the call
                later = [x for x in kdefs if x.lineno > d.lineno and x.lineno < c.lineno]
                if not later:
                    ok3, why3 = True, f"`{kw.id}` is filtered by the factory's declared parameters before the call"
    rep.add("C13.R5", f"{f.qualname}:kwargs-filter", site, ok3, why3)


def r6(p, rep):
    rep.rule("C13.R6", "a callable argument becomes a shape-less tracer keyed by type and inspected signature", "T-DER", floor=2)
    f = p.func("_to_tracer", "frontend.api")
    found = False
    for g in common.with_helpers(p, f):
        cfg = CFG(g.node)
        for n in walk_no_nested(g.node):
            if isinstance(n, ast.Call) and norm(n.func).endswith("ConvertibleTensor"):
                conc = common.kwarg(n, "concrete")
                if isinstance(conc, ast.Name):
                    conc = common.single_reaching_value(cfg, n, conc.id) or conc
                ctext = norm(conc) if conc is not None else ""
                if "parameters=" not in ctext:
                    continue  # the array / scalar arms
                found = True
                shape = common.kwarg(n, "shape")
                ok_shape = isinstance(shape, ast.Constant) and shape.value is None
                rep.add("C13.R6", f"{f.qualname}:factory:shape", f"{g.module.rel}:{n.lineno}", ok_shape, f"shape={norm(shape) if shape is not None else None} (a factory contributes no size constraint)")
                ok_conc = "type=" in ctext and "_get_signature(" in ctext
                rep.add("C13.R6", f"{f.qualname}:factory:concrete", f"{g.module.rel}:{n.lineno}", ok_conc, f"concrete={ctext[:80]}")
                # reached only for callables: guard at the construction or at the helper's call site
                facts = [(norm(t), pol) for t, pol in cfg.guards_of_ast(n)]
                if g is not f:
                    cf = CFG(f.node)
                    for c in walk_no_nested(f.node):
                        if isinstance(c, ast.Call) and resolve_callee(p, c, f.module) == ("func", g):
                            facts += [(norm(t), pol) for t, pol in cf.guards_of_ast(c)]
                ok_guard = any(t.startswith("callable(") and pol for t, pol in facts)
                rep.add("C13.R6", f"{f.qualname}:factory:guard", f"{g.module.rel}:{n.lineno}", ok_guard, "only callables take this arm" if ok_guard else f"the factory arm is reached under {facts}")
    if not found:
        raise AnalysisError("unrecognised idiom: no ConvertibleTensor(concrete=...parameters=...) construction reachable from _to_tracer")

def r7(p, rep):
    rep.rule("C13.R7", "an operation never hands an input tracer back as its result unless that input is known to be a concrete tensor (a factory would be returned uncalled)", "T-DOM (shortcut returns of a parameter element are guarded by `<it>.shape is not None`)", floor=1)
    m = p.module("adapter.einx_from_namedtensor")
    n = 0
    for f in p.funcs.values():
        if f.module is not m or not isinstance(f.node, (ast.FunctionDef, ast.AsyncFunctionDef)) or f.node.args.vararg is None:
            continue
        va = f.node.args.vararg.arg
        cfg = None
        for r in walk_no_nested(f.node):
            if isinstance(r, ast.Return) and isinstance(r.value, ast.Subscript) and isinstance(r.value.value, ast.Name) and r.value.value.id == va and isinstance(r.value.slice, ast.Constant):
                n += 1
                cfg = cfg or CFG(f.node)
                tgt = norm(r.value)
                facts = cfg.guards_of_ast(r)
                ok = any(isinstance(t, ast.Compare) and len(t.ops) == 1 and norm(t.left) == f"{tgt}.shape" and isinstance(t.comparators[0], ast.Constant) and t.comparators[0].value is None and ((isinstance(t.ops[0], ast.IsNot) and pol) or (isinstance(t.ops[0], ast.Is) and not pol)) for t, pol in facts)
                rep.add("C13.R7", f"{f.qualname}:return-input:{tgt}", f"{f.module.rel}:{r.lineno}", ok, f"`return {tgt}` only for a concrete tensor" if ok else f"`return {tgt}` hands the caller's own argument back without looking at what it is: when the target is a tensor factory, the zero-size shortcut returns the factory function itself instead of calling it with the resolved shape (passing the factory is no longer equivalent to passing the tensor)")
    if n == 0:
        rep.ok("C13.R7", "no-shortcut-returns", m.rel, "no operation returns one of its inputs directly", nontrivial=False)


def r8(p, rep):
    rep.rule("C13.R8", "optional keywords (name, arg_index, signature) are offered to every factory parameter that can bind a keyword", "T-EXH over inspect.Parameter kinds", floor=2)
    f = p.func("_call_tensorfactory", "adapter.namedtensor_calltensorfactory")
    members = set()
    # the kinds may be tested where the keywords are filtered, or once where the factory's signature is summarised
    # (`_get_signature` and the record class it builds)
    where = common.with_helpers(p, f)
    try:
        where = where + [g for g in common.with_helpers(p, p.func("_get_signature", "frontend.api"), depth=2, same_module_only=False) if g not in where]
    except AnalysisError:
        pass
    for g in where:
        for n in ast.walk(g.node):
            ch = attr_chain(n) if isinstance(n, ast.Attribute) else None
            if ch and len(ch) >= 3 and ch[-3:-1] == ["inspect", "Parameter"]:
                members.add(ch[-1])
            # a module-level table of kinds (`_KEYWORD_KINDS = (inspect.Parameter.X, ...)`) referenced by name
            if isinstance(n, ast.Name) and isinstance(n.ctx, ast.Load):
                for a in g.module.tree.body:
                    if isinstance(a, ast.Assign) and any(isinstance(t, ast.Name) and t.id == n.id for t in a.targets):
                        for y in ast.walk(a.value):
                            ch2 = attr_chain(y) if isinstance(y, ast.Attribute) else None
                            if ch2 and len(ch2) >= 3 and ch2[-3:-1] == ["inspect", "Parameter"]:
                                members.add(ch2[-1])
    site = f.loc
    need = {"POSITIONAL_OR_KEYWORD", "KEYWORD_ONLY"}
    miss = need - members
    rep.add("C13.R8", f"{f.qualname}:keyword-capable-kinds", site, not miss, "a declared parameter receives the keyword if it is POSITIONAL_OR_KEYWORD or KEYWORD_ONLY" if not miss else f"parameters of kind {sorted(miss)} are not recognised as able to take the keyword: a factory declaring e.g. `def f(shape, *, name)` never receives `name` (silently runs with its default or fails), although passing the tensor works")
    rep.add("C13.R8", f"{f.qualname}:var-keyword", site, "VAR_KEYWORD" in members, "a **kwargs factory receives all optional keywords" if "VAR_KEYWORD" in members else "factories with **kwargs no longer receive the optional keywords")
    extra = members & {"POSITIONAL_ONLY", "VAR_POSITIONAL"}
    rep.add("C13.R8", f"{f.qualname}:no-positional-kinds", site, not extra, "positional-only parameters are never addressed by keyword" if not extra else f"{sorted(extra)} parameters cannot bind a keyword argument but are treated as if they could")


def r9(p, rep):
    rep.rule("C13.R9", "the tensor-factory stage is the outermost wrapper of the operation table: every other stage (device handling, decomposition) only ever sees real tensors, and sees the tensors a factory produced", "T-DER (order of the wrapper pipeline in each backend)", floor=7)
    for fw, m in backends.impl_modules(p).items():
        for f in p.funcs.values():
            if f.module is not m:
                continue
            # the pipeline: <v> = W1(...); <v> = W2(<v>, ...); ...; einx_from_namedtensor.ops(<v>)
            finals = [c for c in walk_no_nested(f.node) if isinstance(c, ast.Call) and norm(c.func).endswith("einx_from_namedtensor.ops") and c.args and isinstance(c.args[0], ast.Name)]
            for fin in finals:
                v = fin.args[0].id
                steps = [a for a in walk_no_nested(f.node) if isinstance(a, ast.Assign) and any(isinstance(t, ast.Name) and t.id == v for t in a.targets) and isinstance(a.value, ast.Call) and a.lineno < fin.lineno]
                steps.sort(key=lambda a: a.lineno)
                names = [norm(a.value.func) for a in steps]
                fac = [i for i, nme in enumerate(names) if "calltensorfactory" in nme]
                key = f"{f.qualname}:pipeline"
                site = f"{m.rel}:{fin.lineno}"
                if not fac:
                    rep.violation("C13.R9", key, site, f"the {fw} operation table is not wrapped by the tensor-factory stage at all ({names}): a factory passed as tensor is never called")
                    continue
                ok = fac[-1] == len(names) - 1
                rep.add("C13.R9", key, site, ok, f"pipeline {[x.split('.')[-2] if '.' in x else x for x in names]}: the factory stage is applied last" if ok else f"`{names[fac[-1]]}` is applied before `{names[-1]}`: the later stage wraps the factory stage and runs while factory arguments are still un-called (e.g. the device of a tensor produced by a factory is never seen, `device=None`)")


def r10(p, rep):
    rep.rule("C13.R10", "per-operation keyword dictionaries are built per operation: no mutable object created before a loop is changed inside it and handed to what is stored for each iteration", "aliasing lint (loop-shared mutable) with a positive self-check", floor=2)
    import os

    from sa.core import set_parents

    n = 0
    for f in p.funcs.values():
        if not isinstance(f.node, (ast.FunctionDef, ast.AsyncFunctionDef)) or not (f.module.name.startswith("einx._src.adapter") or f.module.name.startswith("einx._src.frontend")):
            continue
        if not any(isinstance(x, ast.For) for x in walk_no_nested(f.node)):
            continue
        n += 1
        hits = common.loop_shared_mutables(f.node)
        for st, name in hits:
            rep.violation("C13.R10", f"{f.qualname}:shared:{name}", f"{f.module.rel}:{st.lineno}", f"`{name}` is created before the loop, modified inside it and passed into `{norm(st)[:60]}` on every iteration: all entries share one object (e.g. every factory receives the name of the FIRST operation of the table)")
    rep.info["functions_with_loops_inspected"] = n
    pos = os.path.join(os.path.dirname(os.path.dirname(os.path.abspath(__file__))), "selftest", "positive", "loop_shared_mutable.py")
    tree = ast.parse(open(pos).read())
    set_parents(tree)
    fns = {x.name: x for x in tree.body if isinstance(x, ast.FunctionDef)}
    if len(common.loop_shared_mutables(fns["bad"])) != 1 or common.loop_shared_mutables(fns["good"]):
        raise AnalysisError("self-check of the loop-shared-mutable lint failed on selftest/positive/loop_shared_mutable.py")
    rep.ok("C13.R10", "self-check:positive-example", "selftest/positive/loop_shared_mutable.py", "the lint reports the seeded positive example and is silent on its corrected twin")
    rep.ok("C13.R10", "sweep", "einx/_src/adapter, einx/_src/frontend", f"{n} functions with loops inspected")


def run(p, rep, tier):
    r1(p, rep)
    rep.rule("C13.R2", "graph=True never runs the compiled function", "T-DOM (guard on the false edge of `if graph`)", floor=2)
    r2(p, rep)
    r3(p, rep)
    r4(p, rep)
    r5(p, rep)
    r6(p, rep)
    r7(p, rep)
    r8(p, rep)
    r9(p, rep)
    r10(p, rep)
    from . import c11 as _c11

    _c11.r8(p, rep)  # a backend whose factory module deviates from its siblings behaves differently for this property
    from . import c06

    rep.rule("C06.R1", "cache-key classes compare and hash everything they hold", "T-SIB (__init__ vs __eq__ vs __hash__)", floor=2)
    c06.r1(p, rep, only=("Tensor", "ConvertibleTensor"))
    rep.info["undecided"] = "'exactly once on every execution' as a run-time count; equality of results with passing the produced tensor"
